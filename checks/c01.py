"""C01 - conversion output always conforms to the documented picosvg grammar."""
import io
import os
import sys
import tempfile

from checks import pool, outcheck
from checks.pipeline_common import symbols, instantiate, run_template_case, PIPE_OUTSIDE
from sx import common
from sx import fake_pathops as FP
from sx.dual import replay_concrete

PROPERTY = "C01"
EXC = (ValueError, ZeroDivisionError, AssertionError, NotImplementedError)


def make_harness(template, ndigits, allow_text, drop_unsupported, unsupported_kind=None, cli=False):
    def harness(h):
        S = h.m.svg
        vals = symbols(h, template)
        src = instantiate(h, template, vals)
        try:
            if cli:
                out = run_cli(h, src, allow_text, drop_unsupported)
                nd = 3
            else:
                svg = S.SVG.fromstring(src).topicosvg(ndigits=ndigits, allow_text=allow_text, drop_unsupported=drop_unsupported)
                out = svg.tostring()
                nd = ndigits
        except EXC as e:
            msg = str(e)
            h.tag("raised:" + type(e).__name__)
            if drop_unsupported and msg.startswith("Unable to convert to picosvg") and "BadElement" in msg:
                h.check(False, "drop_unsupported.still_fails_on_unsupported_elements", detail=msg[:160])
            if unsupported_kind == "text" and allow_text and msg.startswith("Unable to convert to picosvg"):
                h.check(False, "allow_text.text_rejected", detail=msg[:160])
            return ["raised"]
        if unsupported_kind and not drop_unsupported and not (unsupported_kind == "text" and allow_text):
            # normal return although unsupported content is present: it must be gone from the output
            pass
        outcheck.grammar_check(h, out, nd, allow_text=allow_text)
        return [len(out)]

    return harness


def run_cli(h, src, allow_text, drop_unsupported):
    """the CLI entry point called in-process (absl flag parsing itself is outside)"""
    if h.symbolic:
        from sx import loader

        m = h.m
        if "picosvg" not in m._mods:
            # load src/picosvg/picosvg.py through the instrumented builtins, with a private
            # absl FlagValues (the global registry belongs to the normally imported module)
            import ast
            import types
            from absl import flags as real_flags, app as real_app

            fv = real_flags.FlagValues()

            class FlagsProxy:
                FLAGS = fv

                def __getattr__(self, name):
                    fn = getattr(real_flags, name)
                    if name.startswith("DEFINE_"):
                        def wrapped(*a, **k):
                            k.setdefault("flag_values", fv)
                            return fn(*a, **k)

                        return wrapped
                    return fn

            absl_pkg = types.SimpleNamespace(flags=FlagsProxy(), app=real_app)
            bdict = dict(m.svg.__dict__["__builtins__"])
            inner_import = bdict["__import__"]

            def imp(name, globals=None, locals=None, fromlist=(), level=0):
                if name == "absl":
                    return absl_pkg
                return inner_import(name, globals, locals, fromlist, level)

            bdict["__import__"] = imp
            path = os.path.join(loader.SRC, "picosvg.py")
            code = compile(ast.parse(open(path).read(), filename=path), path, "exec")
            mod = types.ModuleType(m._prefix + ".picosvg.picosvg")
            mod.__dict__["__builtins__"] = bdict
            exec(code, mod.__dict__)
            m._mods["picosvg"] = mod
        cli = m._mods["picosvg"]
    else:
        import picosvg.picosvg as cli
    FLAGS = cli.FLAGS
    if not FLAGS.is_parsed():
        FLAGS(["picosvg"])
    FLAGS.allow_text = allow_text
    FLAGS.drop_unsupported = drop_unsupported
    FLAGS.clip_to_viewbox = False
    with tempfile.TemporaryDirectory() as d:
        inp, outp = os.path.join(d, "in.svg"), os.path.join(d, "out.svg")
        with open(inp, "w") as f:
            f.write(src)
        FLAGS.output_file = outp
        cli._run(["picosvg", inp])
        return open(outp).read()


def cases(tier, seed):
    cs = []
    fam = pool.subset(pool.family_templates(tier), tier, seed + 2, every=6, thorough_every=2, exclude=("C05:mixed_all",))  # > 500 paths with the round contract: C05/C08 thorough keep it
    for k in fam:
        nds = [3] if tier == "quick" else [0, 3]
        if k.startswith("special:"):
            nds = [0, 3, 6] if tier != "quick" else [0, 3]
        for nd in nds:
            cs.append({"template": k, "ndigits": nd, "allow_text": False, "drop": False})
    for uk in pool.UNSUPPORTED:
        for at in (False, True):
            for dr in (False, True):
                cs.append({"template": "unsupported:" + uk, "ndigits": 3, "allow_text": at, "drop": dr, "kind": uk})
    for k in ("special:comment_pi_foreign", "special:root_presentation_attrs", "special:group_one_child_maybe_unpainted", "C05:g_opacity_two"):
        cs.append({"template": k, "ndigits": 3, "allow_text": False, "drop": True, "cli": True})
    return cs


def _template(name):
    if name.startswith("unsupported:"):
        return pool.UNSUPPORTED[name.split(":", 1)[1]]
    return pool.family_templates("thorough")[name]


def harness_for(case):
    return make_harness(_template(case["template"]), case["ndigits"], case["allow_text"], case["drop"], case.get("kind"), case.get("cli", False))


def run_case(case, tier):
    return run_template_case(
        harness_for(case), tier, opts={"round_identity": False, "assume_positive_area": False, "tol_cut": True}, max_paths=500
    )


def finding_key(case, failure):
    return {"template": case["template"], "label": failure["label"], "options": f"nd={case['ndigits']},text={case['allow_text']},drop={case['drop']},cli={case.get('cli', False)}"}


def replay(case, failure):
    rep = replay_concrete(harness_for(case), failure, allowed_exceptions=EXC)
    if rep.get("reproduced"):
        return rep
    from checks.pipeline_common import integerish_variants, collinear_variant
    import fractions

    col = collinear_variant(failure.get("inputs") or {}, case.get("ndigits", 3))
    col = {k: str(fractions.Fraction(v)) if not isinstance(v, str) or "/" not in v else v for k, v in col.items()}
    for inp in list(integerish_variants(failure.get("inputs") or {})) + [col]:
        f2 = dict(failure)
        f2["inputs"] = inp
        f2.pop("alt_inputs", None)
        r2 = replay_concrete(harness_for(case), f2, allowed_exceptions=EXC)
        if r2.get("reproduced"):
            r2["detail"] = "integer/exponent-form battery: " + r2["detail"]
            return r2
    return rep


def describe(tier):
    return {
        "explanation": (
            "The whole topicosvg pipeline (and the CLI's _run called in-process) on the union of the template families plus "
            "templates with unsupported / ignorable content (text, mask, filter, image, style, symbol, foreign namespace element "
            "and attribute, comment, processing instruction, root presentation attributes), for ndigits in {0,3,6} x allow_text x "
            "drop_unsupported.  An independent checker of the README grammar reads the output: structure clauses are concrete per "
            "path; numeric clauses are validity queries (kept-group opacity strictly inside (0,1); every path-data number is "
            "round_n(.) of something by term shape or a literal with <= n decimals)."
        ),
        "bounds": {"templates": "special + unsupported templates x options; a seed-rotated sixth (quick) / half (thorough) of the C02-C06 families, without the heavy C06 matrix templates, C02:matrix_chain and C02:four_levels", "ndigits": "3 (specials also 0; thorough 0,3 and 6 for specials)"},
        "outside": PIPE_OUTSIDE + ["absl flag parsing of the CLI", "that Skia only emits M/L/Q/C/Z verbs (contract)"],
        "stubs": common.mods().stubs + FP.CONTRACT,
        "assumptions": FP.CONTRACT + ["floats as reals", "round contract"],
    }
