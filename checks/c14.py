"""C14 - content that renderers ignore never influences the converted document.

Two conversions inside one symbolic path: D and N(D), N inserting one (quick) /
two (thorough) noise items at a tree position; outputs must be equal after
canonical relabelling of generated gradient ids and sorting of defs, numbers
provably equal.
"""
import copy
import re
import zlib

from lxml import etree

from checks import pool, outcheck
from checks.pipeline_common import symbols, instantiate, run_template_case, PIPE_OUTSIDE
from sx import common, pipeline
from sx import fake_pathops as FP
from sx.dual import replay_concrete

PROPERTY = "C14"
EXC = (ValueError, ZeroDivisionError, AssertionError, NotImplementedError)
SVGNS = "http://www.w3.org/2000/svg"
NOISE = ["comment", "pi", "title", "desc", "metadata", "foreign_element", "foreign_attribute", "anon_symbol", "wrapper_g", "whitespace", "xml_decl", "foreign_attribute_local_ns", "nested_descriptive"]
BASE = [
    "C05:g_opacity_two", "C05:g_g_opacity", "C05:g_fill_inherit", "C05:use_group_opacity", "C06:lin_obb_translate", "C06:href_attrs_and_stops",
    "C06:lin_shared_two_shapes", "C03:group_clip", "C03:clip_the_clip", "C04:inherited_from_group", "C02:use_in_group", "C02:nested_in_group",
    "special:grad_shared_transformed_untransformed", "special:id_instanced_twice",
]


def positions(root):
    """(parent path, index) for every insertion slot, parent path as child-index tuple"""
    out = []

    def walk(e, path):
        kids = [c for c in e if isinstance(c.tag, str)]
        for i in range(len(kids) + 1):
            out.append((path, i))
        for i, c in enumerate(kids):
            walk(c, path + (i,))

    walk(root, ())
    return out


def element_at(root, path):
    e = root
    for i in path:
        e = [c for c in e if isinstance(c.tag, str)][i]
    return e


def add_noise(text, kind, pos_index):
    """-> noisy text (the {symbol} placeholders are ordinary character data for lxml)"""
    parser = etree.XMLParser(remove_blank_text=False, resolve_entities=False)
    root = etree.fromstring(text.encode("utf-8"), parser)
    slots = positions(root)
    path, idx = slots[pos_index % len(slots)]
    parent = element_at(root, path)
    kids = [c for c in parent if isinstance(c.tag, str)]
    if kind == "xml_decl":
        return '<?xml version="1.0" encoding="UTF-8"?>\n' + text
    if kind == "foreign_attribute":
        # declare the namespace on the root, put the attribute on the chosen parent
        txt = text.replace("<svg ", '<svg xmlns:nz="http://example.org/noise" ', 1)
        root = etree.fromstring(txt.encode("utf-8"), parser)
        parent = element_at(root, path)
        parent.set("{http://example.org/noise}label", "x")
        return etree.tostring(root).decode("utf-8")
    if kind == "foreign_attribute_local_ns":
        # the namespace is declared on the element that carries the attribute (what lxml's
        # el.set("{ns}a", v) or an editor's per-element extension produces), not on the root
        parent.set("{http://example.org/noise2}locked", "true")
        return etree.tostring(root).decode("utf-8")
    if kind == "wrapper_g":
        if not kids:
            return None
        tgt = kids[min(idx, len(kids) - 1)]
        if tgt.tag in ("{%s}stop" % SVGNS, "{%s}defs" % SVGNS) or parent.tag.endswith("Gradient") or parent.tag.endswith("clipPath") or parent.tag.endswith("defs"):
            return None  # a g is not allowed there in SVG
        g = etree.Element("{%s}g" % SVGNS)
        tgt.addprevious(g)
        g.append(tgt)
        return etree.tostring(root).decode("utf-8")
    if kind == "comment":
        node = etree.Comment(" noise ")
    elif kind == "pi":
        node = etree.ProcessingInstruction("noise", "x=1")
    elif kind in ("title", "desc", "metadata"):
        node = etree.Element("{%s}%s" % (SVGNS, kind))
        node.text = "n"
    elif kind == "nested_descriptive":
        # descriptive elements nested in one another, followed (in document order) by further
        # descriptive elements: removal while iterating must not end early
        node = etree.Element("{%s}metadata" % SVGNS)
        d = etree.SubElement(node, "{%s}desc" % SVGNS)
        d.text = "n"
        etree.SubElement(d, "{%s}title" % SVGNS).text = "t"
        late = etree.Element("{%s}title" % SVGNS)
        late.text = "late"
        groups = [g for g in root.iter("{%s}g" % SVGNS) if not any(a.tag == "{%s}defs" % SVGNS for a in g.iterancestors())]
        (groups[-1] if groups else root).append(late)
        root.append(etree.Element("{%s}desc" % SVGNS))
    elif kind == "foreign_element":
        node = etree.Element("{http://example.org/noise}thing", nsmap={"nz": "http://example.org/noise"})
    elif kind == "anon_symbol":
        node = etree.Element("{%s}symbol" % SVGNS)
        etree.SubElement(node, "{%s}rect" % SVGNS, width="1", height="1")
    elif kind == "whitespace":
        if idx < len(kids):
            kids[idx].tail = (kids[idx].tail or "") + "\n   "
        else:
            parent.text = (parent.text or "") + "\n  "
        return etree.tostring(root).decode("utf-8")
    else:
        raise KeyError(kind)
    if idx < len(kids):
        kids[idx].addprevious(node)
    else:
        parent.append(node)
    return etree.tostring(root).decode("utf-8")


def canonical(text):
    """relabel gradient ids in order of a structural sort of defs, update references"""
    root = outcheck.parse_full(text)
    NS = "{%s}" % SVGNS
    for d in root.iter(NS + "defs"):
        grads = [g for g in d if isinstance(g.tag, str)]

        def key(g):
            return (g.tag, sorted((k, outcheck.NUM_TOKEN.sub("#", v)) for k, v in g.attrib.items() if k != "id"), len(g))

        grads.sort(key=key)
        for g in list(d):
            d.remove(g)
        ren = {}
        for i, g in enumerate(grads):
            ren[g.get("id")] = f"G{i}"
            g.set("id", f"G{i}")
            d.append(g)
        for e in root.iter():
            if isinstance(e.tag, str):
                for a, v in e.attrib.items():
                    m = re.fullmatch(r"url\(#([^)]+)\)", v)
                    if m and m.group(1) in ren:
                        e.set(a, f"url(#{ren[m.group(1)]})")
    return etree.tostring(root).decode("utf-8")


def make_harness(template, kinds_positions):
    noisy_t = template
    for kind, posi in kinds_positions:
        noisy_t = add_noise(noisy_t, kind, posi)
        if noisy_t is None:
            break

    def harness(h):
        if noisy_t is None:
            return ["n/a"]
        S = h.m.svg
        vals = symbols(h, template)
        src = instantiate(h, template, vals)
        noisy = instantiate(h, noisy_t, vals)
        try:
            out_d = S.SVG.fromstring(src).topicosvg().tostring()
        except EXC as e:
            return ["raised"]
        try:
            out_n = S.SVG.fromstring(noisy).topicosvg().tostring()
        except EXC as e:
            h.check(False, "noise_makes_conversion_fail", detail=f"{type(e).__name__}: {e}"[:160])
            return ["raised-noisy"]
        outcheck.same_document(h, canonical(out_d), canonical(out_n), "noise_changes_nothing")
        return [len(out_d)]

    return harness


def _template(name):
    return pool.family_templates("thorough")[name]


def cases(tier, seed):
    cs = []
    for t in BASE:
        text = _template(t)
        root = etree.fromstring(text.encode("utf-8"))
        n = len(positions(root))
        for kind in NOISE:
            if kind == "xml_decl":
                cs.append({"template": t, "noise": [[kind, 0]]})
                continue
            for p in range(n):
                if tier == "quick" and (zlib.crc32(f"{t}{kind}{p}".encode()) + seed) % 3:
                    continue
                cs.append({"template": t, "noise": [[kind, p]]})
        if tier != "quick":
            for k1 in ("comment", "wrapper_g", "foreign_element", "title"):
                for k2 in ("pi", "wrapper_g", "anon_symbol"):
                    for p in range(0, n, 2):
                        cs.append({"template": t, "noise": [[k1, p], [k2, (p * 7 + 3) % n]]})
    return cs


def harness_for(case):
    return make_harness(_template(case["template"]), [tuple(x) for x in case["noise"]])


def run_case(case, tier):
    return run_template_case(harness_for(case), tier, opts={"tol_cut": True}, max_paths=300, validate_every=8)


def finding_key(case, failure):
    return {"template": case["template"], "noise": "+".join(k for k, _ in case["noise"]), "label": failure["label"].split(".")[0]}


def replay(case, failure):
    return replay_concrete(harness_for(case), failure, allowed_exceptions=EXC)


def describe(tier):
    return {
        "explanation": (
            "Two conversions in one symbolic path: D and N(D) with shared symbols; N inserts a comment, processing instruction, "
            "title/desc/metadata, foreign-namespace element or attribute, id-less symbol, attribute-less g wrapper, whitespace text "
            "or an XML declaration at a tree position of 14 base templates (groups with opacity, gradients with href, clips, "
            "strokes, use, nested svg).  Outputs must be equal after canonical relabelling of generated gradient ids and sorting of "
            "defs; numbers provably equal (round is the identity for gradient parameters)."
        ),
        "bounds": {"base_templates": BASE, "noise": NOISE, "positions": "a seed-rotated third of all insertion slots per (template, kind) (quick) / all slots + pairs of noise items (thorough)"},
        "outside": PIPE_OUTSIDE + ["a g wrapper is not inserted where SVG does not allow a g (inside gradients, clipPath, defs)"],
        "stubs": common.mods().stubs + FP.CONTRACT,
        "assumptions": FP.CONTRACT + ["floats as reals"],
    }
