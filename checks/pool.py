"""Union of the template families used by the document-level properties."""
import zlib

from checks import c02, c03, c04, c05, c06
from checks.pipeline_common import doc

STOPS = '<stop offset="0" stop-color="red"/><stop offset="1" stop-color="blue"/>'
R1 = '<rect id="a" x="{x1}" y="{y1}" width="{w1}" height="{h1}"{e1}/>'
R2 = '<rect id="b" x="{x2}" y="{y2}" width="{w2}" height="{h2}"{e2}/>'


def rr(e1="", e2=""):
    return R1.replace("{e1}", e1), R2.replace("{e2}", e2)


SPECIAL = {}
a, b = rr(' fill="url(#g)"', ' fill="url(#g)"')
GRAD = f'<linearGradient id="g" x1="{{gx1}}" y1="{{gy1}}" x2="{{gx2}}" y2="{{gy2}}">{STOPS}</linearGradient>'
# --- reference sharing (C08), invisible users (C07/C08) ------------------------------
SPECIAL["grad_shared_transformed_untransformed"] = doc(f'<defs>{GRAD}</defs><g transform="translate({{tx}} {{ty}})">{a}</g>{b}')
SPECIAL["grad_user_maybe_invisible"] = doc(f'<defs>{GRAD}</defs>' + rr(' fill="url(#g)" opacity="{o1}"', ' fill="red"')[0] + rr("", ' fill="red"')[1])
SPECIAL["grad_shared_visible_and_maybe_invisible"] = doc(f'<defs>{GRAD}</defs>' + rr(' fill="url(#g)" opacity="{o1}"')[0] + b)
SPECIAL["grad_user_zero_area"] = doc(f'<defs>{GRAD}</defs><path id="a" d="M{{x1}},{{y1}} L{{x2}},{{y2}}" fill="url(#g)"/>' + rr("", ' fill="red"')[1])
# sole user of a gradient sits in a translucent group that collapses (its sibling never paints): the
# product of the two opacities may round to 0 only AFTER the group was flattened
SPECIAL["grad_user_in_collapsing_group"] = doc(f'<defs>{GRAD}</defs><g opacity="{{o1}}">' + rr(' fill="url(#g)" opacity="{o2}"')[0] + '<path d="M{x3},{y3} L{x4},{y4}" fill="green"/></g>' + rr("", ' fill="red"')[1])
# a gradient's own gradientTransform with a (possibly tiny) translation: 6-digit rounding decides
# whether the translation is folded into the coordinates
SPECIAL["grad_own_transform_translation"] = doc('<defs><linearGradient id="g" gradientUnits="userSpaceOnUse" x1="{gx1}" y1="{gy1}" x2="{gx2}" y2="{gy2}" gradientTransform="matrix({s1} 0 0 {s1} {ne} {nf})">' + STOPS + '</linearGradient></defs>' + rr(' fill="url(#g)"')[0])
SPECIAL["grad_unused_in_source"] = doc(f'<defs>{GRAD}<linearGradient id="unused">{STOPS}</linearGradient></defs>{a}')
SPECIAL["grad_outside_defs"] = doc(f'{GRAD}<g transform="scale({{s1}})">{a}</g>')
SPECIAL["id_shape_stroked"] = doc(rr(' fill="red" stroke="blue" stroke-width="{s1}"')[0] + rr("", ' fill="green"')[1])
SPECIAL["id_instanced_twice"] = doc('<defs><g id="grp">' + rr(' fill="red"')[0] + '</g></defs><use xlink:href="#grp" x="{ux}"/><use xlink:href="#grp" y="{uy}"/>')
SPECIAL["id_collision_generated_gradient"] = doc(f'<defs>{GRAD}<linearGradient id="g_0">{STOPS}</linearGradient></defs><g transform="translate({{tx}} {{ty}})">{a}</g>' + rr("", ' fill="url(#g_0)"')[1])
SPECIAL["id_collision_nested_clip"] = doc('<defs><clipPath id="nested-svg-viewport-0"><rect width="50" height="50"/></clipPath></defs><svg x="{vx}" y="{vy}" width="{w3}" height="{h3}">' + rr(' fill="red" clip-path="url(#nested-svg-viewport-0)"')[0] + "</svg>")
SPECIAL["use_of_gradient_filled_target"] = doc(f'<defs>{GRAD}{a}</defs><use xlink:href="#a" x="{{ux}}" y="{{uy}}"/><use xlink:href="#a"/>')
# --- groups whose children may paint nothing (C01/C07) --------------------------------------
LINE = '<path d="M{x3},{y3} L{x4},{y4}" fill="green"/>'
LINE2 = '<path d="M{x5},{y5} L{x6},{y6}" fill="blue"/>'
SPECIAL["group_one_child_maybe_unpainted"] = doc('<g opacity="{o1}">' + rr(' fill="red"')[0] + LINE + "</g>")
SPECIAL["group_both_children_maybe_unpainted"] = doc('<g opacity="{o1}">' + LINE + LINE2 + "</g>" + rr(' fill="red"')[0])
SPECIAL["group_child_transparent"] = doc('<g opacity="{o1}">' + rr(' fill="red"', ' fill="blue" opacity="{o2}"')[0] + rr(' fill="red"', ' fill="blue" opacity="{o2}"')[1] + "</g>")
SPECIAL["nested_groups_inner_emptied"] = doc('<g opacity="{o1}">' + rr(' fill="red"')[0] + '<g opacity="{o2}">' + LINE + LINE2 + "</g></g>")
SPECIAL["nested_groups_outer_loses_shape"] = doc('<g opacity="{o1}"><g opacity="{o2}">' + rr(' fill="red"', ' fill="blue"')[0] + rr(' fill="red"', ' fill="blue"')[1] + "</g>" + LINE + "</g>")
SPECIAL["nested_groups_three_deep"] = doc('<g opacity="{o1}"><g opacity="{o2}"><g opacity="{o3}">' + rr(' fill="red"', ' fill="blue"')[0] + rr(' fill="red"', ' fill="blue"')[1] + "</g>" + LINE + "</g>" + LINE2 + "</g>")
# --- unsupported / ignored content (C01) ------------------------------------------------
SPECIAL["comment_pi_foreign"] = (
    '<?xml version="1.0"?><?xpacket begin="x"?><svg xmlns="http://www.w3.org/2000/svg" xmlns:xlink="http://www.w3.org/1999/xlink" '
    'xmlns:ink="http://example.org/ink" viewBox="0 0 100 100" ink:version="1"><!-- c --><title>t</title><desc>d</desc><metadata><ink:x/></metadata>'
    '<ink:named/><symbol><rect width="1" height="1"/></symbol>' + rr(' fill="red" ink:label="L"')[0] + "</svg>"
)
SPECIAL["root_presentation_attrs"] = doc(rr()[0] + rr("", ' fill="green"')[1], rootattrs='fill="red" stroke-width="{s1}" fill-rule="evenodd" style="stroke-linecap:round" display="inline"')
SPECIAL["evenodd_path"] = doc('<path d="M{x1},{y1} L{x2},{y2} L{x3},{y3} Z M{x4},{y4} L{x5},{y5} L{x6},{y6} Z" fill="red" fill-rule="evenodd"/>')
SPECIAL["shorthand_and_relative"] = doc('<path d="m{x1},{y1} h{x2} v{y2} s{x3},{y3} {x4},{y4} t{x5},{y5} z" fill="red"/>')
UNSUPPORTED = {
    "text": doc(rr(' fill="red"')[0] + '<text x="1" y="2">hi <tspan>there</tspan></text>'),
    "text_in_group": doc('<g fill="red" stroke="blue" stroke-width="{s1}" opacity="{o1}" fill-opacity="0.5" stroke-linecap="round" stroke-linejoin="bevel" fill-rule="evenodd">' + rr()[0] + '<text x="1" y="2">hi <tspan>there</tspan></text></g>'),
    "image_mask_filter": doc('<defs><mask id="m"><rect width="5" height="5"/></mask><filter id="f"/></defs><image width="3" height="3"/>' + rr(' fill="red"')[0]),
    "style_element": doc("<style>.a{fill:red}</style>" + rr(' fill="red"')[0]),
    "symbol_with_id": doc('<symbol id="sym"><rect width="1" height="1"/></symbol>' + rr(' fill="red"')[0]),
}


def family_templates(tier):
    pool = {}
    for mod in (c02, c03, c04, c05, c06):
        for k, v in mod.templates(tier).items():
            pool[f"{mod.PROPERTY}:{k}"] = v
    for k, v in SPECIAL.items():
        pool["special:" + k] = v
    return pool


def subset(pool, tier, seed, every=3, thorough_every=1, exclude=()):
    """quick tier: every special template and a deterministic third of the family templates
    (rotated by seed); thorough: everything"""
    if tier != "quick":
        # everything except C06's fully symbolic gradient-matrix templates (10-20 min each; they are
        # C06's own thorough tier and would multiply with the options of C01/C07)
        # and C02's five-matrix chain / four nesting levels (5-25 min each on their own, solver-time varies): they stay
        # in their own check's thorough tier
        return {
            k: v
            for k, v in pool.items()
            if not (k.startswith("C06:") and k.split(":", 1)[1] in c06.THOROUGH)
            and k not in ("C02:matrix_chain", "C02:four_levels")
            and k not in exclude
            and (k.startswith("special:") or (zlib.crc32(k.encode()) + seed) % thorough_every == 0)
        }
    out = {}
    for k in sorted(pool):
        if k.startswith("special:") or (zlib.crc32(k.encode()) + seed) % every == 0:
            out[k] = pool[k]
    return out
