"""C11 - transform strings and affine algebra follow the SVG specification.

Leaf kernels of svg_transform.py executed symbolically (all six-tuples, points,
rectangles, arguments are z3 reals); the oracle is written from the SVG text
and never calls picosvg.
"""
import itertools
import zlib

import z3

from sx import common, loader
from sx import ctx as C
from sx.dual import replay_concrete, Abort

PROPERTY = "C11"

OPS = [
    ("matrix", 6),
    ("translate", 1),
    ("translate", 2),
    ("scale", 1),
    ("scale", 2),
    ("rotate", 1),
    ("rotate", 3),
    ("skewX", 1),
    ("skewY", 1),
]
# (arg separator, op separator, name case, pre-paren, inner pad)
STYLES = [
    (",", " ", "asis", "", ""),
    (" ", "", "lower", "", ""),
    (", ", ",", "upper", " ", ""),
    (" , ", ", ", "asis", "", " "),
    ("  ", "\n", "asis", "\t", " "),
    (",", " \t", "lower", "", "  "),
]
ALIGNS = ["none", "xMinYMin", "xMinYMid", "xMinYMax", "xMidYMin", "xMidYMid", "xMidYMax", "xMaxYMin", "xMaxYMid", "xMaxYMax"]


# ---------------------------------------------------------------- spec side
def sp_apply(m, p):
    a, b, c, d, e, f = m
    x, y = p
    return (a * x + c * y + e, b * x + d * y + f)


def sp_op_point(h, name, args, p):
    """SVG 1.1 section 7.6: apply one transform function to point p"""
    M = h.m.svg_transform  # only for sin/cos/tan/radians symbols (shared libm symbols)
    import sx.symmath as sm

    if h.symbolic:
        sin, cos, tan, radians = sm.sin, sm.cos, sm.tan, sm.radians
    else:
        import math

        sin, cos, tan, radians = math.sin, math.cos, math.tan, math.radians
    x, y = p
    n = name.lower()
    if n == "matrix":
        return sp_apply(args, p)
    if n == "translate":
        tx = args[0]
        ty = args[1] if len(args) > 1 else 0
        return (x + tx, y + ty)
    if n == "scale":
        sx = args[0]
        sy = args[1] if len(args) > 1 else sx
        return (x * sx, y * sy)
    if n == "rotate":
        a = radians(args[0])
        cx, cy = (args[1], args[2]) if len(args) == 3 else (0, 0)
        x0, y0 = x - cx, y - cy
        return (cos(a) * x0 - sin(a) * y0 + cx, sin(a) * x0 + cos(a) * y0 + cy)
    if n == "skewx":
        return (x + tan(radians(args[0])) * y, y)
    if n == "skewy":
        return (x, y + tan(radians(args[0])) * x)
    raise AssertionError(name)


def six(h, stem):
    return tuple(h.real(f"{stem}{i}") for i in "abcdef")


def pt(h, stem="p"):
    return (h.real(stem + "x"), h.real(stem + "y"))


# ------------------------------------------------------------- harnesses
def h_compose(h):
    A2 = h.m.svg_transform.Affine2D
    A, B, Cm = six(h, "A"), six(h, "B"), six(h, "C")
    p = pt(h)
    r = A2.compose_ltr((A2(*A), A2(*B))).map_point(p)
    e = sp_apply(B, sp_apply(A, p))
    h.check_eq(r[0], e[0], "compose_ltr2.x")
    h.check_eq(r[1], e[1], "compose_ltr2.y")
    r3 = A2.compose_ltr((A2(*A), A2(*B), A2(*Cm))).map_point(p)
    e3 = sp_apply(Cm, sp_apply(B, sp_apply(A, p)))
    h.check_eq(r3[0], e3[0], "compose_ltr3.x")
    h.check_eq(r3[1], e3[1], "compose_ltr3.y")
    # A @ B maps by B first
    m = (A2(*A) @ A2(*B)).map_point(p)
    em = sp_apply(A, sp_apply(B, p))
    h.check_eq(m[0], em[0], "matmul.x")
    h.check_eq(m[1], em[1], "matmul.y")
    l = ((A2(*A) @ A2(*B)) @ A2(*Cm)).map_point(p)
    rr = (A2(*A) @ (A2(*B) @ A2(*Cm))).map_point(p)
    h.check_eq(l[0], rr[0], "matmul_assoc.x")
    h.check_eq(l[1], rr[1], "matmul_assoc.y")
    v = A2(*A).map_vector(p)
    h.check_eq(v[0], A[0] * p[0] + A[2] * p[1], "map_vector.x")
    h.check_eq(v[1], A[1] * p[0] + A[3] * p[1], "map_vector.y")
    e1 = A2.compose_ltr(()).map_point(p)
    h.check_eq(e1[0], p[0], "compose_empty.x")
    h.check_eq(e1[1], p[1], "compose_empty.y")
    return [r[0], r[1], r3[0], r3[1], m[0], m[1]]


def h_inverse(h):
    A2 = h.m.svg_transform.Affine2D
    A = six(h, "A")
    p = pt(h)
    m = A2(*A)
    inv = m.inverse()
    det = A[0] * A[3] - A[1] * A[2]
    eps = 2.220446049250313e-16
    q = inv.map_point(m.map_point(p))
    q2 = m.map_point(inv.map_point(p))
    big = h.or_(h.lt(eps, det), h.lt(det, -eps)) if h.symbolic else abs(det) > 1e-6
    if h.is_true(big):
        h.tag("nondegenerate")
        # cleared-denominator form: det*(inv(A(p))) = det*p  (DESIGN C11, probe P3)
        h.check_eq(det * q[0], det * p[0], "inverse.left.x")
        h.check_eq(det * q[1], det * p[1], "inverse.left.y")
        h.check_eq(det * q2[0], det * p[0], "inverse.right.x")
        h.check_eq(det * q2[1], det * p[1], "inverse.right.y")
    else:
        h.tag("degenerate")
        if not h.symbolic and abs(det) > eps:
            return []
        for i, v in enumerate(inv):
            # identity is its own inverse is handled by the first branch of the code;
            # a degenerate matrix cannot be the identity
            h.check_eq(v, 0, f"inverse.degenerate[{i}]")
    return list(inv)


def h_ops(h):
    """each builder method == spec, applied on top of an arbitrary base matrix"""
    A2 = h.m.svg_transform.Affine2D
    M = six(h, "M")
    p = pt(h)
    a = [h.real(f"t{i}") for i in range(6)]
    import sx.symmath as sm
    import math

    rad = (lambda v: v)  # methods take radians already
    base = A2(*M)
    which = h.pick(
        ["translate1", "translate2", "scale1", "scale2", "rotate1", "rotate3", "skewx", "skewy", "skew", "matrix"],
        "op",
    )
    if h.symbolic:
        sin, cos, tan = sm.sin, sm.cos, sm.tan
    else:
        sin, cos, tan = math.sin, math.cos, math.tan
    x, y = p
    if which == "translate1":
        r = base.translate(a[0])
        e = (x + a[0], y)
    elif which == "translate2":
        r = base.translate(a[0], a[1])
        e = (x + a[0], y + a[1])
    elif which == "scale1":
        r = base.scale(a[0])
        e = (x * a[0], y * a[0])
    elif which == "scale2":
        r = base.scale(a[0], a[1])
        e = (x * a[0], y * a[1])
    elif which == "rotate1":
        r = base.rotate(a[0])
        e = (cos(a[0]) * x - sin(a[0]) * y, sin(a[0]) * x + cos(a[0]) * y)
    elif which == "rotate3":
        r = base.rotate(a[0], a[1], a[2])
        x0, y0 = x - a[1], y - a[2]
        e = (cos(a[0]) * x0 - sin(a[0]) * y0 + a[1], sin(a[0]) * x0 + cos(a[0]) * y0 + a[2])
    elif which == "skewx":
        r = base.skewx(a[0])
        e = (x + tan(a[0]) * y, y)
    elif which == "skewy":
        r = base.skewy(a[0])
        e = (x, y + tan(a[0]) * x)
    elif which == "skew":
        r = base.skew(a[0], a[1])
        e = (x + tan(a[0]) * y, y + tan(a[1]) * x)
    else:
        r = base.matrix(*a)
        e = sp_apply(a, p)
    got = r.map_point(p)
    exp = sp_apply(M, e)
    h.check_eq(got[0], exp[0], f"op.{which}.x")
    h.check_eq(got[1], exp[1], f"op.{which}.y")
    return [got[0], got[1]]


def h_misc(h):
    A2 = h.m.svg_transform.Affine2D
    A = six(h, "A")
    m = A2(*A)
    h.check_eq(m.determinant(), A[0] * A[3] - A[1] * A[2], "determinant")
    t = m.gettranslate()
    h.check_eq(t[0], A[4], "gettranslate.x")
    h.check_eq(t[1], A[5], "gettranslate.y")
    s = m.getscale()
    h.check_eq(s[0], A[0], "getscale.x")
    h.check_eq(s[1], A[3], "getscale.y")
    n = h.pick([0, 3, 6], "ndigits")
    r = m.round(n)
    import fractions
    half = fractions.Fraction(1, 2 * 10**n)
    for i in range(6):
        h.check_close(r[i], A[i], half, f"round[{i}]")
    # identity / flip_y / degenerate constants
    p = pt(h)
    i_ = A2.identity().map_point(p)
    h.check_eq(i_[0], p[0], "identity.x")
    h.check_eq(i_[1], p[1], "identity.y")
    f_ = A2.flip_y().map_point(p)
    h.check_eq(f_[0], p[0], "flip_y.x")
    h.check_eq(f_[1], -p[1], "flip_y.y")
    return [r[i] for i in range(6)] if not h.symbolic or True else []


def sp_product_ltr(f, s_):
    """matrix of p -> s_(f(p)) from the definition of an affine map (independent
    of Affine2D.__matmul__ / compose_ltr)"""
    fa, fb, fc, fd, fe, ff = f
    sa, sb, sc, sd, se, sf = s_
    return (
        sa * fa + sc * fb,
        sb * fa + sd * fb,
        sa * fc + sc * fd,
        sb * fc + sd * fd,
        sa * fe + sc * ff + se,
        sb * fe + sd * ff + sf,
    )


def _decompose_common(h, name, first, second, A):
    """on normal return the parts recompose to the original matrix within the
    function's own 1e-4 self-check tolerance, entry by entry (hence
    |second(first(p)) - self(p)| <= 1e-4*(|px|+|py|+1) for every p)"""
    import fractions

    M = sp_product_ltr(tuple(first), tuple(second))
    tol = fractions.Fraction(1e-4)  # exactly the float DECOMPOSITION_ALMOST_EQUAL_TOLERANCE
    for i in range(6):
        h.check_close(M[i], A[i], tol, f"{name}.recomposes[{i}]")
    return list(M)


def h_decompose_translation(h):
    A2 = h.m.svg_transform.Affine2D
    A = six(h, "A")
    m = A2(*A)
    try:
        first, second = m.decompose_translation()
    except (ZeroDivisionError, AssertionError):
        h.tag("raised")
        return ["raised"]
    obs = _decompose_common(h, "decompose_translation", first, second, A)
    # first is a pure translation, second has no translation
    for i, v in enumerate((1, 0, 0, 1)):
        h.check_eq(first[i], v, f"decompose_translation.first[{i}]")
    h.check_eq(second[4], 0, "decompose_translation.second.e")
    h.check_eq(second[5], 0, "decompose_translation.second.f")
    return obs


def h_decompose_scale(h):
    A2 = h.m.svg_transform.Affine2D
    A = six(h, "A")
    m = A2(*A)
    try:
        first, second = m.decompose_scale()
    except (ZeroDivisionError, AssertionError):
        h.tag("raised")
        return ["raised"]
    obs = _decompose_common(h, "decompose_scale", first, second, A)
    h.check_eq(first[1], 0, "decompose_scale.first.b")
    h.check_eq(first[2], 0, "decompose_scale.first.c")
    h.check_eq(first[4], 0, "decompose_scale.first.e")
    h.check_eq(first[5], 0, "decompose_scale.first.f")
    h.check(h.and_(h.le(0, first[0]), h.le(0, first[3])), "decompose_scale.scale_nonnegative")
    return obs


def h_tostring(h):
    A2 = h.m.svg_transform.Affine2D
    A = six(h, "A")
    m = A2(*A)
    s = m.tostring()
    back = A2.fromstring(s)
    for i in range(6):
        h.check_eq(back[i], A[i], f"tostring_roundtrip[{i}]", detail=s if not h.symbolic else None)
    h.tag("translate-form" if s.startswith("translate") else "matrix-form")
    return list(back)


def render_list(h, seq, style):
    argsep, opsep, case, pre, pad = STYLES[style]
    parts = []
    args_all = []
    k = 0
    for name, n in seq:
        nm = {"asis": name, "lower": name.lower(), "upper": name.upper()}[case]
        args = [h.real(f"n{k + i}") for i in range(n)]
        k += n
        args_all.append((name, args))
        if h.symbolic:
            toks = [str(a) for a in args]
        else:
            toks = [repr(float(a)) for a in args]
        parts.append(f"{nm}{pre}({pad}{argsep.join(toks)}{pad})")
    return opsep.join(parts), args_all


def make_h_parse(seq, style):
    def h_parse(h):
        A2 = h.m.svg_transform.Affine2D
        s, ops = render_list(h, seq, style)
        p = pt(h)
        m = A2.fromstring(s)
        got = m.map_point(p)
        # "T1 T2 T3": the rightmost applies first (product in listed order)
        q = p
        for name, args in reversed(ops):
            q = sp_op_point(h, name, args, q)
        h.check_eq(got[0], q[0], "parse.x", detail=s if not h.symbolic else None)
        h.check_eq(got[1], q[1], "parse.y", detail=s if not h.symbolic else None)
        return [got[0], got[1]]

    return h_parse


# ------------------------------------------------------------------ number lexing in transform lists
NUM_ALPHABET = "0159+-.eE"
LEX_SEPS = [",", " ", " , ", "\t"]
_LEX_MODS = None


def lex_mods():
    """own load: `re` inside the loaded modules is sx.symstr.SymRe, so parse_svg_transform's
    finditer/split run with Python's backtracking semantics over symbolic characters"""
    global _LEX_MODS
    if _LEX_MODS is None:
        from sx.symstr import SymRe

        _LEX_MODS = loader.load(fake_skia=True, extra_imports={"re": SymRe()})
    return _LEX_MODS


def make_h_lex(name, n, numlen, sep):
    """op(number sep number ...) with the NUMBERS as symbolic strings: integer / decimal / exponent
    forms, signs, leading dots; a list that conforms to the SVG 1.1 transform grammar (every token
    one whole `number`) must parse, to the matrix of exactly those numbers"""
    from sx.symstr import SymStr
    from sx.spec import path_grammar as G

    def h_lex(h):
        A2 = (lex_mods() if h.symbolic else h.m).svg_transform.Affine2D
        if h.symbolic:
            h.ctx.opts["alphabet"] = NUM_ALPHABET
        toks, texts = [], []
        for i in range(n):
            if h.symbolic:
                toks.append(SymStr.fresh(f"n{i}", numlen, NUM_ALPHABET))
            else:
                t = "".join(chr(int(h.real(f"n{i}!{j}"))) for j in range(numlen))
                texts.append(t)
                toks.append(SymStr([ord(c) for c in t]))
        buf = SymStr([ord(c) for c in name + "("])
        for i, t in enumerate(toks):
            if i:
                buf = buf + LEX_SEPS[(sep + i) % len(LEX_SEPS)]
            buf = buf + t
        buf = buf + ")"
        text = None
        if not h.symbolic:
            text = name + "(" + "".join((LEX_SEPS[(sep + i) % len(LEX_SEPS)] if i else "") + t for i, t in enumerate(texts)) + ")"
        err, m = None, None
        try:
            m = A2.fromstring(buf if h.symbolic else text)
        except ValueError:
            err = "ValueError"
        except C.Concretize:
            raise
        except Exception as e:  # noqa
            err = type(e).__name__
        vals = []
        for i, t in enumerate(toks):
            p_ = G._P(t)
            v = p_.number()
            if v is None or p_.i != len(t.cs):
                h.tag("not-in-grammar")
                return ["not-in-grammar", err]
            if h.symbolic:
                vals.append(v)
            else:
                fv = float(texts[i])  # the token IS one grammar number: its value is what float() reads
                if fv in (float("inf"), float("-inf")) or (fv == 0.0 and any(c in "123456789" for c in texts[i].lower().split("e")[0])):
                    raise Abort("beyond the float range: outside the real-number model")
                vals.append(fv)
        h.tag("conforming")
        if not h.check(err is None, "lex.conforming_list_is_parsed", detail=(text, err)):
            return ["rejected", err]
        p = pt(h)
        got = m.map_point(p)
        q = sp_op_point(h, name, vals, p)
        h.check(h.and_(h.eq(got[0], q[0]), h.eq(got[1], q[1])) if h.symbolic else (abs(got[0] - q[0]) <= 1e-9 * (1 + abs(q[0])) and abs(got[1] - q[1]) <= 1e-9 * (1 + abs(q[1]))), "lex.numbers_read_as_written", detail=text)
        return ["parsed"]

    return h_lex


def make_h_rect(align, mos, variant):
    def h_rect(h):
        A2 = h.m.svg_transform.Affine2D
        Rect = h.m.geometric_types.Rect
        s = [h.real(f"s{c}") for c in "xywh"]
        d = [h.real(f"d{c}") for c in "xywh"]
        h.assume(h.le(0, s[2]) if not h.symbolic else (s[2] >= 0))
        h.assume(s[3] >= 0)
        h.assume(d[2] >= 0)
        h.assume(d[3] >= 0)
        par = align if not mos else f"{align} {mos}"
        if variant == "lower":
            par = par.lower()
        elif variant == "upper":
            par = par.upper()
        elif variant == "pad":
            par = " " + par + " "
        src, dst = Rect(*s), Rect(*d)
        if variant == "default":
            if align != "none" or mos:
                return []
            m = A2.rect_to_rect(src, dst)
        else:
            m = A2.rect_to_rect(src, dst, par)
        sx_, b, c, sy_, tx, ty = m
        src_empty = h.or_(h.eq(s[2], 0), h.eq(s[3], 0))
        dst_empty = h.or_(h.eq(d[2], 0), h.eq(d[3], 0))
        if h.is_true(src_empty):
            h.tag("src-empty")
            for i, v in enumerate((1, 0, 0, 1, 0, 0)):
                h.check_eq(m[i], v, f"rect.src_empty[{i}]")
            return list(m)
        if h.is_true(dst_empty):
            h.tag("dst-empty")
            for i in range(6):
                h.check_eq(m[i], 0, f"rect.dst_empty[{i}]")
            return list(m)
        h.check_eq(b, 0, "rect.b")
        h.check_eq(c, 0, "rect.c")
        ix0, ix1 = s[0] * sx_ + tx, (s[0] + s[2]) * sx_ + tx
        iy0, iy1 = s[1] * sy_ + ty, (s[1] + s[3]) * sy_ + ty
        dx0, dx1, dy0, dy1 = d[0], d[0] + d[2], d[1], d[1] + d[3]
        if align == "none":
            h.check_eq(ix0, dx0, "rect.none.x0")
            h.check_eq(ix1, dx1, "rect.none.x1")
            h.check_eq(iy0, dy0, "rect.none.y0")
            h.check_eq(iy1, dy1, "rect.none.y1")
            return list(m)
        h.check_eq(sx_, sy_, "rect.uniform")
        h.check(h.lt(0, sx_), "rect.scale_positive")
        touch = h.or_(h.eq(ix1 - ix0, d[2]), h.eq(iy1 - iy0, d[3]))
        h.check(touch, "rect.extent_equal_on_one_axis")
        if mos == "slice":
            cover = h.and_(h.le(ix0, dx0), h.le(dx1, ix1), h.le(iy0, dy0), h.le(dy1, iy1))
            h.check(cover, "rect.slice.covers")
        else:
            inside = h.and_(h.le(dx0, ix0), h.le(ix1, dx1), h.le(dy0, iy0), h.le(iy1, dy1))
            h.check(inside, "rect.meet.inside")
        al = align.lower()
        if "xmin" in al:
            h.check_eq(ix0, dx0, "rect.align.xmin")
        elif "xmid" in al:
            h.check_eq(ix0 + ix1, dx0 + dx1, "rect.align.xmid")
        else:
            h.check_eq(ix1, dx1, "rect.align.xmax")
        if "ymin" in al:
            h.check_eq(iy0, dy0, "rect.align.ymin")
        elif "ymid" in al:
            h.check_eq(iy0 + iy1, dy0 + dy1, "rect.align.ymid")
        else:
            h.check_eq(iy1, dy1, "rect.align.ymax")
        return list(m)

    return h_rect


def h_rect_invalid(h):
    A2 = h.m.svg_transform.Affine2D
    Rect = h.m.geometric_types.Rect
    s = [h.real(f"s{c}") for c in "xywh"]
    d = [h.real(f"d{c}") for c in "xywh"]
    for v in (s[2], s[3], d[2], d[3]):
        h.assume(v > 0)
    bad = h.pick(["xMinYMiddle", "meet", "xMidYMid crop", "", "xMidYMid meet slice", "x"], "bad")
    try:
        A2.rect_to_rect(Rect(*s), Rect(*d), bad)
    except ValueError:
        h.check(True, "rect.invalid.raises")
        return ["ValueError"]
    h.check(False, "rect.invalid.raises", detail=bad)
    return ["returned"]


ALGEBRA = {
    "compose": h_compose,
    "inverse": h_inverse,
    "ops": h_ops,
    "misc": h_misc,
    "decompose_translation": h_decompose_translation,
    "decompose_scale": h_decompose_scale,
    "tostring": h_tostring,
    "rect_invalid": h_rect_invalid,
}


def harness_for(case):
    k = case["kind"]
    if k == "algebra":
        return ALGEBRA[case["name"]]
    if k == "parse":
        return make_h_parse([tuple(x) for x in case["seq"]], case["style"])
    if k == "rect":
        return make_h_rect(case["align"], case["mos"], case["variant"])
    if k == "lex":
        return make_h_lex(case["op"], case["n"], case["numlen"], case["sep"])
    raise KeyError(k)


def cases(tier, seed):
    cs = [{"kind": "algebra", "name": n} for n in ALGEBRA]
    kmax = 3 if tier == "quick" else 4
    for k in range(1, kmax + 1):
        for seq in itertools.product(OPS, repeat=k):
            styles = range(len(STYLES)) if k <= 2 else [(zlib.crc32(str(seq).encode()) + seed + i) % len(STYLES) for i in range(2 if tier == "quick" else 3)]
            for st in sorted(set(styles)):
                cs.append({"kind": "parse", "seq": [list(s) for s in seq], "style": st})
    if tier != "quick":
        sub = [OPS[0], OPS[2], OPS[4], OPS[6], OPS[7]]
        for seq in itertools.product(sub, repeat=5):
            cs.append({"kind": "parse", "seq": [list(s) for s in seq], "style": (zlib.crc32(str(seq).encode()) + seed) % len(STYLES)})
    for al in ALIGNS:
        for mos in ("", "meet", "slice"):
            for variant in ("asis", "lower", "upper") + (("pad",) if tier != "quick" else ()):
                cs.append({"kind": "rect", "align": al, "mos": mos, "variant": variant})
    cs.append({"kind": "rect", "align": "none", "mos": "", "variant": "default"})
    # number lexing: token length by arity so that a case stays within ~10^4 paths
    for name, n in OPS:
        nl = {1: 5, 2: 3, 3: 2, 6: 1}[n] if tier == "quick" else {1: 6, 2: 3, 3: 2, 6: 1}[n]
        for sep in range(2 if tier == "quick" else len(LEX_SEPS)):
            cs.append({"kind": "lex", "op": name, "n": n, "numlen": nl, "sep": sep})
    return cs


def case_cost(case):
    if case["kind"] == "lex":
        return 4 ** (case["numlen"] * case["n"])
    if case["kind"] == "parse":
        return len(case["seq"])
    return 10


def run_case(case, tier):
    m = lex_mods() if case["kind"] == "lex" else common.mods(fake_skia=True)
    opts = {"axioms": ()}
    if case["kind"] == "algebra" and case["name"] == "decompose_scale":
        opts = {"axioms": ()}
    return common.run_symbolic(
        harness_for(case),
        mods_=m,
        timeout_ms=10000 if tier == "quick" else 60000,
        opts=opts,
        validate_every=10,
    )


def finding_key(case, failure):
    k = {"kind": case["kind"], "label": failure["label"]}
    if case["kind"] == "algebra":
        k["name"] = case["name"]
    elif case["kind"] == "parse":
        k["ops"] = "-".join(f"{n}{c}" for n, c in case["seq"])
    elif case["kind"] == "lex":
        k["op"] = f"{case['op']}{case['n']}"
    else:
        k["align"] = case["align"]
        k["mos"] = case["mos"]
    return k


def replay(case, failure):
    return replay_concrete(harness_for(case), failure)


def describe(tier):
    kmax = 3 if tier == "quick" else 4
    return {
        "explanation": (
            "Bounded symbolic execution of the real svg_transform.py / geometric_types.py source (reloaded from /repo) "
            "with every numeric input a z3 real; per feasible path the SVG-spec oracle is an SMT validity query "
            "(polynomial identities, sin/cos/tan/hypot shared uninterpreted symbols). sat models are replayed on the "
            "normally imported package with floats before being reported."
        ),
        "bounds": {
            "transform_list_ops": f"1..{kmax} operations over 9 (name,arity) forms exhaustively" + ("; 5 operations over a 5-form sub-alphabet" if tier != "quick" else ""),
            "separator_styles": len(STYLES),
            "rect_to_rect": "10 alignments x {omitted,meet,slice} x case/padding variants, src/dst any reals with w,h>=0",
            "algebra": "all real 6-tuples / points (unbounded)",
            "lex": "op(numbers) with the numbers as symbolic strings over '0159+-.eE', length by arity 5/3/2/1 (thorough 6/3/2/1), 2 (4) separator styles, `re` of the loaded module replaced by backtracking regex semantics over symbolic characters; oracle: SVG 1.1 number production, comma-wsp mandatory between numbers",
        },
        "outside": [
            "IEEE rounding of + - * / (reals stand for floats)",
            "CPython float() itself (modelled: sign, digits, fraction, exponent <= 400)", "transform lists without comma-wsp between numbers (not in the SVG 1.1 transform grammar)",
            "numeric values of sin/cos/tan (symbols only)",
            "transform lists longer than the bound",
        ],
        "stubs": common.mods().stubs,
        "assumptions": [
            "floats modelled as exact reals",
            "libm functions are uninterpreted symbols shared by implementation and oracle",
            "round(x,n) modelled by the contract |R(x)-x|<=0.5*10^-n",
        ],
    }
