"""C03 - clip paths are rendered into exactly the clipped geometry."""
from checks.pipeline_common import replay_render, doc, make_render_harness, run_template_case, PIPE_OUTSIDE
from sx import common, pipeline
from sx import fake_pathops as FP

PROPERTY = "C03"

RECT = '<rect x="{x1}" y="{y1}" width="{w1}" height="{h1}" fill="red"{extra}/>'
POLY = '<polygon points="{px1},{py1} {px2},{py2} {px3},{py3}" fill="green"{extra}/>'
CRECT = '<rect x="{cx1}" y="{cy1}" width="{w5}" height="{h5}"{cextra}/>'
CPOLY = '<polygon points="{qx1},{qy1} {qx2},{qy2} {qx3},{qy3}"{cextra}/>'
CPATH = '<path d="M{rx1},{ry1} L{rx2},{ry2} L{rx3},{ry3} L{rx4},{ry4} Z"{cextra}/>'


def R(extra=""):
    return RECT.replace("{extra}", extra)


def P(extra=""):
    return POLY.replace("{extra}", extra)


def C(s, cextra=""):
    return s.replace("{cextra}", cextra)


CLIP = ' clip-path="url(#c)"'
T = {}
T["shape_one_child"] = doc(f'<defs><clipPath id="c">{C(CRECT)}</clipPath></defs>{R(CLIP)}')
T["shape_two_children"] = doc(f'<defs><clipPath id="c">{C(CRECT)}{C(CPOLY)}</clipPath></defs>{R(CLIP)}')
T["shape_three_children"] = doc(f'<defs><clipPath id="c">{C(CRECT)}{C(CPOLY)}{C(CPATH)}</clipPath></defs>{P(CLIP)}')
T["clip_rule_evenodd_child"] = doc(f'<defs><clipPath id="c">{C(CPATH, " clip-rule=\'evenodd\'")}{C(CRECT)}</clipPath></defs>{R(CLIP)}'.replace("'", '"'))
T["clip_rule_on_clippath"] = doc(f'<defs><clipPath id="c" clip-rule="evenodd">{C(CPATH)}</clipPath></defs>{R(CLIP)}')
T["target_fill_rule_evenodd"] = doc(f'<defs><clipPath id="c">{C(CRECT)}</clipPath></defs><path d="M{{x1}},{{y1}} L{{x2}},{{y2}} L{{x3}},{{y3}} L{{x4}},{{y4}} Z" fill="red" fill-rule="evenodd" clip-path="url(#c)"/>')
T["evenodd_target_nonzero_clip_and_back"] = doc(f'<defs><clipPath id="c">{C(CPATH, " clip-rule=\'nonzero\' fill-rule=\'evenodd\'")}</clipPath></defs><path d="M{{x1}},{{y1}} L{{x2}},{{y2}} L{{x3}},{{y3}} L{{x4}},{{y4}} Z" fill="red" fill-rule="evenodd" clip-rule="nonzero" clip-path="url(#c)"/>'.replace("'", '"'))
TWO = '<path d="M{x1},{y1} L{x2},{y2} L{x3},{y3} Z M{x4},{y4} L{x5},{y5} L{x6},{y6} Z" fill="red"{extra}/>'
T["two_contour_evenodd_target"] = doc(f'<defs><clipPath id="c">{C(CRECT)}</clipPath></defs>' + TWO.replace("{extra}", ' fill-rule="evenodd" clip-rule="nonzero" clip-path="url(#c)"'))
T["two_contour_nonzero_target_evenodd_cliprule"] = doc(f'<defs><clipPath id="c">{C(CRECT)}</clipPath></defs>' + TWO.replace("{extra}", ' fill-rule="nonzero" clip-rule="evenodd" clip-path="url(#c)"'))
T["two_contour_clip_child_evenodd"] = doc('<defs><clipPath id="c"><path d="M{x1},{y1} L{x2},{y2} L{x3},{y3} Z M{x4},{y4} L{x5},{y5} L{x6},{y6} Z" clip-rule="evenodd" fill-rule="nonzero"/></clipPath></defs>' + R(CLIP))
T["clippath_transform"] = doc(f'<defs><clipPath id="c" transform="translate({{tx}} {{ty}})">{C(CRECT)}</clipPath></defs>{R(CLIP)}')
T["clip_child_transform"] = doc(f'<defs><clipPath id="c">{C(CRECT, " transform=\'scale({s1} {s2})\'")}{C(CPOLY)}</clipPath></defs>{R(CLIP)}'.replace("'", '"'))
T["clippath_and_child_transform"] = doc(f'<defs><clipPath id="c" transform="rotate({{a1}})">{C(CPOLY, " transform=\'translate({tx} {ty})\'")}</clipPath></defs>{P(CLIP)}'.replace("'", '"'))
T["transformed_target"] = doc(f'<defs><clipPath id="c">{C(CRECT)}</clipPath></defs>{R(CLIP + " transform=\'translate({tx} {ty}) scale({s1})\'")}'.replace("'", '"'))
T["group_clip"] = doc(f'<defs><clipPath id="c">{C(CRECT)}</clipPath></defs><g clip-path="url(#c)">{R()}{P()}</g>')
T["group_clip_transformed_group"] = doc(f'<defs><clipPath id="c">{C(CRECT)}</clipPath></defs><g clip-path="url(#c)" transform="translate({{tx}} {{ty}})">{R()}</g>{P()}')
T["ancestor_chain_two_clips"] = doc(f'<defs><clipPath id="c">{C(CRECT)}</clipPath><clipPath id="d">{C(CPOLY)}</clipPath></defs><g clip-path="url(#c)"><g clip-path="url(#d)" transform="scale({{s1}})">{R()}</g>{P()}</g>')
T["group_and_shape_clip"] = doc(f'<defs><clipPath id="c">{C(CRECT)}</clipPath><clipPath id="d">{C(CPOLY)}</clipPath></defs><g clip-path="url(#c)">{R(" clip-path=\'url(#d)\'")}</g>'.replace("'", '"'))
T["clip_the_clip"] = doc(f'<defs><clipPath id="d">{C(CPOLY)}</clipPath><clipPath id="c" clip-path="url(#d)">{C(CRECT)}</clipPath></defs>{R(CLIP)}')
T["clip_the_clip_transform"] = doc(f'<defs><clipPath id="d">{C(CPOLY)}</clipPath><clipPath id="c" clip-path="url(#d)" transform="translate({{tx}} {{ty}})">{C(CRECT)}</clipPath></defs>{R(CLIP)}')
T["use_in_clippath"] = doc(f'<defs><rect id="r" width="{{w5}}" height="{{h5}}"/><clipPath id="c"><use xlink:href="#r" x="{{ux}}" y="{{uy}}"/></clipPath></defs>{R(CLIP)}')
T["clip_on_use"] = doc(f'<defs><clipPath id="c">{C(CRECT)}</clipPath><rect id="r" x="{{x1}}" y="{{y1}}" width="{{w1}}" height="{{h1}}"/></defs><use xlink:href="#r" x="{{ux}}" y="{{uy}}" clip-path="url(#c)" fill="red"/>')
T["clip_none"] = doc(f'<defs><clipPath id="c">{C(CRECT)}</clipPath></defs>{R(" clip-path=\'none\'")}{P(CLIP)}'.replace("'", '"'))
T["shared_clip_two_shapes"] = doc(f'<defs><clipPath id="c">{C(CRECT)}</clipPath></defs>{R(CLIP)}<g transform="translate({{tx}} {{ty}})">{P(CLIP)}</g>')
T["clip_with_group_opacity"] = doc(f'<defs><clipPath id="c">{C(CRECT)}</clipPath></defs><g opacity="{{o1}}" clip-path="url(#c)">{R()}{P()}</g>')
T["nested_svg_clip"] = doc(f'<svg x="{{vx}}" y="{{vy}}" width="{{w3}}" height="{{h3}}">{R()}</svg>{P()}')

THOROUGH = {}
THOROUGH["three_clips_chain"] = doc(f'<defs><clipPath id="c">{C(CRECT)}</clipPath><clipPath id="d">{C(CPOLY)}</clipPath><clipPath id="e">{C(CPATH)}</clipPath></defs><g clip-path="url(#c)"><g clip-path="url(#d)"><g clip-path="url(#e)">{R()}</g></g></g>')


def templates(tier):
    t = dict(T)
    if tier != "quick":
        t.update(THOROUGH)
    return t


def _no_clip_left(h, src, out, vals):
    h.check("clip-path" not in out and "clipPath" not in out, "output_has_no_clip")


def cases(tier, seed):
    return [{"template": k} for k in templates(tier)]


def harness_for(case):
    return make_render_harness(templates("thorough")[case["template"]], "clipped_render_equal", extra_check=_no_clip_left)


def run_case(case, tier):
    # every op()/simplify() of the abstract Skia may also come back EMPTY (explorer fork): clip
    # regions that vanish are a code path of their own (empty command lists, falsy paths)
    return run_template_case(harness_for(case), tier, opts={"skia_may_return_empty": True})


def finding_key(case, failure):
    return {"template": case["template"], "label": failure["label"]}


# concrete geometry on which nonzero and evenodd differ (same-direction nested triangles), everything overlapping
BATTERY = [
    {"x1": 0, "y1": 0, "x2": 12, "y2": 0, "x3": 0, "y3": 12, "x4": 1, "y4": 1, "x5": 6, "y5": 1, "x6": 1, "y6": 6,
     "cx1": -1, "cy1": -1, "w5": 20, "h5": 20, "w1": 14, "h1": 14},
    # overlapping clip children of opposite orientation (a union must not cancel them)
    {"cx1": 0, "cy1": 0, "w5": 10, "h5": 10, "qx1": 4, "qy1": 4, "qx2": 4, "qy2": 16, "qx3": 16, "qy3": 4,
     "rx1": 2, "ry1": 2, "rx2": 2, "ry2": 9, "rx3": 9, "ry3": 9, "rx4": 9, "ry4": 2,
     "x1": -2, "y1": -2, "w1": 30, "h1": 30, "px1": -2, "py1": -2, "px2": 40, "py2": -2, "px3": -2, "py3": 40},
]
# the same two geometries with visible transform parameters (a witness's own translation may be
# too small for the sampler to see which clip it was applied to)
BATTERY += [dict(b, tx=5, ty=3, s1=1.5, s2=0.75, a1=30) for b in list(BATTERY)]


def replay(case, failure):
    return replay_render(harness_for(case), failure, variants=BATTERY)


def describe(tier):
    return {
        "explanation": (
            "topicosvg on templates with clipPath (1-3 children, clip-rule per child and on the clipPath, transforms on clipPath and "
            "children, clipPath clipped by another clipPath, clip-path on shapes / groups / use, clips stacked along the ancestor chain, "
            "use inside clipPath, nested svg overflow clip) under the abstract Skia.  The region term of every output path must be "
            "propositionally equivalent to Leaf(shape o CTM, fill-rule) AND for each clip OR over children Leaf(child o T_child o "
            "T_clipPath o CTM_ref, clip-rule) (AND nested clip), leaves identified by provable coordinate equality; checked through "
            "the compositing identity with free coverage atoms.  Output carries no clip-path."
        ),
        "bounds": {"templates": sorted(templates(tier)), "numbers": "all geometry/transform numbers real"},
        "outside": PIPE_OUTSIDE,
        "stubs": common.mods().stubs + FP.CONTRACT,
        "assumptions": FP.CONTRACT + ["floats as reals"],
    }
