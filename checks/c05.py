"""C05 - every output path carries the paint and opacity the SVG cascade assigns."""
from checks.pipeline_common import replay_render, doc, make_render_harness, run_template_case, PIPE_OUTSIDE
from sx import common
from sx.dual import replay_concrete
from sx import fake_pathops as FP

PROPERTY = "C05"

R1 = '<rect x="0" y="0" width="{w1}" height="{h1}"{a1}/>'
R2 = '<rect x="{x2}" y="{y2}" width="{w2}" height="{h2}"{a2}/>'
P3 = '<polygon points="{px1},{py1} {px2},{py2} {px3},{py3}"{a3}/>'


def shapes(a1="", a2="", a3=""):
    return R1.replace("{a1}", a1), R2.replace("{a2}", a2), P3.replace("{a3}", a3)


_v0 = shapes(' fill=\"red\" opacity=\"{o2}\"')[0]
_v1 = shapes(a2=' fill=\"blue\" display=\"none\"')[1]
_v2 = shapes(' fill=\"black\"')[0]
_v3 = shapes(a2=' fill=\"blue\" fill-opacity=\"{o2}\"')[1]
_v4 = shapes(' fill=\"red\" opacity=\"{o3}\"')[0]
_v5 = shapes(' fill=\"orange\"')[0]
_v6 = shapes(a2=' fill-opacity=\"{o4}\"')[1]
T = {}
s1, s2, s3 = shapes(' fill="red"', ' fill="blue"', ' fill="green"')
# --- group opacity: keep-or-flatten ------------------------------------------------
T["g_opacity_two"] = doc(f'<g opacity="{{o1}}">{s1}{s2}</g>')
T["g_opacity_one"] = doc(f'<g opacity="{{o1}}">{s1}</g>{s2}')
T["g_opacity_three"] = doc(f'<g opacity="{{o1}}">{s1}{s2}{s3}</g>')
T["g_g_opacity"] = doc(f'<g opacity="{{o1}}"><g opacity="{{o2}}">{s1}{s2}</g>{s3}</g>')
T["g_g_single_chain"] = doc(f'<g opacity="{{o1}}"><g opacity="{{o2}}">{s1}</g></g>{s2}')
T["g_opacity_style"] = doc(f'<g style="opacity:{{o1}}">{s1}{s2}</g>')
T["g_opacity_child_opacity"] = doc(f'<g opacity="{{o1}}">{_v0}{s2}</g>')
T["g_noattr_wrapper"] = doc(f'<g><g opacity="{{o1}}">{s1}{s2}</g></g>{s3}')
T["g_opacity_with_hidden_child"] = doc(f'<g opacity="{{o1}}">{s1}{_v1}</g>{s3}')
# --- fill cascade ------------------------------------------------------------------
u1, u2, u3 = shapes("", ' fill="blue"', "")
T["g_fill_inherit"] = doc(f'<g fill="red">{u1}{u2}</g>{u3}')
T["g_fill_style_beats_attr"] = doc(f'<g fill="red" style="fill:green">{u1}</g>{u2}')
T["shape_style_beats_attr"] = doc(shapes(' fill="red" style="fill: blue"')[0] + s2)
T["root_fill"] = doc(f'{u1}<g fill="green">{u3}</g>{u2}', rootattrs='fill="red"')
T["root_style_fill"] = doc(f'{u1}{u2}', rootattrs='style="fill:red"')
T["g_g_fill"] = doc(f'<g fill="red"><g fill="green">{u1}</g>{u3}</g>')
T["fill_none_group"] = doc(f'<g fill="none">{u1}{u2}</g>{s3}')
T["explicit_default_fill"] = doc(f'<g fill="red">{_v2}{u3}</g>')
# --- fill-opacity / opacity products ---------------------------------------------------
T["fill_opacity_attr"] = doc(shapes(' fill="red" fill-opacity="{o1}"')[0] + s2)
T["fill_opacity_inherited"] = doc(f'<g fill-opacity="{{o1}}">{s1}{_v3}</g>')
T["fill_opacity_and_opacity"] = doc(shapes(' fill="red" fill-opacity="{o1}" opacity="{o2}"')[0] + s2)
T["fill_opacity_style"] = doc(shapes(' fill="red" style="fill-opacity:{o1};opacity:{o2}"')[0] + s2)
T["opacity_chain_three"] = doc(f'<g opacity="{{o1}}"><g opacity="{{o2}}">{_v4}</g></g>')
T["root_opacity"] = doc(f'{s1}{s2}', rootattrs='opacity="{o1}"')
# --- use -------------------------------------------------------------------------------
T["use_fill_inherit"] = doc(f'<defs><rect id="r" width="{{w1}}" height="{{h1}}"/></defs><use xlink:href="#r" fill="red"/><use xlink:href="#r" x="{{ux}}" fill="blue" opacity="{{o1}}"/>')
T["use_own_fill_wins"] = doc(f'<defs><rect id="r" width="{{w1}}" height="{{h1}}" fill="green"/></defs><g fill="red"><use xlink:href="#r" x="{{ux}}"/></g>')
T["use_group_opacity"] = doc(f'<defs><g id="grp">{s1}{s2}</g></defs><use xlink:href="#grp" opacity="{{o1}}"/>')
T["use_opacity_target_opacity"] = doc(f'<defs><rect id="r" width="{{w1}}" height="{{h1}}" opacity="{{o2}}" fill="red"/></defs><use xlink:href="#r" opacity="{{o1}}"/>{s2}')
# --- display -------------------------------------------------------------------------
T["display_none_attr_in_group"] = doc(f'<g opacity="{{o1}}" display="none">{s1}{s2}</g>{s3}')
T["display_inline_explicit"] = doc(f'<g display="inline" opacity="{{o1}}">{s1}{s2}</g>')
T["fill_rule_inherit"] = doc(f'<g fill-rule="evenodd"><path d="M0,0 L{{w1}},0 L{{w1}},{{h1}} Z M1,1 L2,1 L2,2 Z" fill="red"/></g>{s2}')

THOROUGH = {}
THOROUGH["g3_opacity_nest"] = doc(f'<g opacity="{{o1}}"><g opacity="{{o2}}">{s1}{s2}</g><g opacity="{{o3}}">{s3}{_v5}</g></g>')
THOROUGH["mixed_all"] = doc(f'<g fill="red" fill-opacity="{{o1}}" opacity="{{o2}}"><g style="fill:blue;opacity:{{o3}}">{u1}{_v6}</g>{u3}</g>', rootattrs='fill="green"')


def templates(tier):
    t = dict(T)
    if tier != "quick":
        t.update(THOROUGH)
    return t


def cases(tier, seed):
    return [{"template": k} for k in templates(tier)]


def harness_for(case):
    return make_render_harness(templates("thorough")[case["template"]], "composite_equal")


def run_case(case, tier):
    return run_template_case(harness_for(case), tier)


def finding_key(case, failure):
    return {"template": case["template"], "label": failure["label"]}


def replay(case, failure):
    return replay_render(harness_for(case), failure)


def describe(tier):
    return {
        "explanation": (
            "The whole topicosvg pipeline on template documents that set fill / fill-opacity / opacity / display / fill-rule via "
            "attributes and style on root, nested groups, use and shapes; every opacity is a z3 real in [0,1], geometry symbolic. "
            "Oracle: independent SVG cascade + source-over compositing with group opacity; coverage of the sample point by each "
            "leaf is a free Boolean (all overlap patterns), one colour symbol per distinct paint.  composite(source) == "
            "composite(output) is one QF_NRA validity query per path."
        ),
        "bounds": {"templates": sorted(templates(tier)), "numbers": "opacities in [0,1]; sizes > 0; positions real"},
        "outside": PIPE_OUTSIDE + ["'inherit' and currentColor (property scope)", "opacities outside [0,1]"],
        "stubs": common.mods().stubs + FP.CONTRACT,
        "assumptions": FP.CONTRACT + ["floats as reals"],
    }
