"""C07 - conversion is idempotent: picosvg in, identical picosvg out."""
from checks import pool, outcheck
from checks.pipeline_common import symbols, instantiate, run_template_case, PIPE_OUTSIDE
from sx import common
from sx import fake_pathops as FP
from sx.dual import replay_concrete

PROPERTY = "C07"
EXC = (ValueError, ZeroDivisionError, AssertionError, NotImplementedError)


def make_harness(template, ndigits, passes):
    def harness(h):
        S = h.m.svg
        vals = symbols(h, template)
        src = instantiate(h, template, vals)
        try:
            svg1 = S.SVG.fromstring(src).topicosvg(ndigits=ndigits)
            out1 = svg1.tostring()
        except EXC as e:
            h.tag("raised:" + type(e).__name__)
            return ["raised"]
        # a converted document passes the library's own check
        v = S.SVG.fromstring(out1).checkpicosvg()
        h.check(tuple(v) == (), "converted_document_passes_checkpicosvg", detail=list(v)[:3])
        prev = out1
        for i in range(2, passes + 1):
            try:
                nxt = S.SVG.fromstring(prev).topicosvg(ndigits=ndigits).tostring()
            except EXC as e:
                h.check(False, f"pass{i}.raises", detail=f"{type(e).__name__}: {e}"[:120])
                return ["raised2"]
            outcheck.same_document(h, prev, nxt, f"pass{i}_equals_pass{i-1}")
            if not h.symbolic:
                h.check(prev == nxt, f"pass{i}_byte_identical", detail=_first_diff(prev, nxt))
            prev = nxt
        return [len(out1)]

    return harness


def _first_diff(a, b):
    for i, (x, y) in enumerate(zip(a, b)):
        if x != y:
            return (a[max(0, i - 30) : i + 30], b[max(0, i - 30) : i + 30])
    return (len(a), len(b))


def cases(tier, seed):
    cs = []
    for k in pool.subset(pool.family_templates(tier), tier, seed + 1, every=7, thorough_every=3, exclude=("C05:mixed_all",)):
        nd = [3] if tier == "quick" else ([0, 3, 6] if k.startswith("special:") else [0, 3])
        for n in nd:
            cs.append({"template": k, "ndigits": n, "passes": 2 if tier == "quick" else 3})
    return cs


def harness_for(case):
    return make_harness(pool.family_templates("thorough")[case["template"]], case["ndigits"], case["passes"])


def run_case(case, tier):
    # rounding is the subject here: round() follows its contract (|R(x)-x|<=half ulp, R(R(x))=R(x));
    # areas may be zero (invisible content is part of the property)
    return run_template_case(
        harness_for(case), tier, opts={"round_identity": False, "assume_positive_area": False, "tol_cut": True}, max_paths=500
    )


def finding_key(case, failure):
    return {"template": case["template"], "label": failure["label"].split(".")[0]}


def replay(case, failure):
    return replay_concrete(harness_for(case), failure, allowed_exceptions=EXC)


def describe(tier):
    return {
        "explanation": (
            "Two (quick) / three (thorough) conversions inside one symbolic path: out1 = convert(T), out2 = convert(out1) with the "
            "same symbol table; abstract Skia answers are functions of the region term (a second pass decides as the first did, "
            "Simplify(Simplify(t)) == Simplify(t) modelled), round obeys |R(x)-x| <= half ulp and R(R(x)) = R(x), printing/parsing of "
            "a number is the identity on its term.  Oracle: same XML structure and attribute names, every pair of numbers provably "
            "equal; checkpicosvg() of out1 returns ().  Concrete replays compare bytes."
        ),
        "bounds": {"templates": "every special template + a seed-rotated seventh (quick) / third (thorough, ndigits 0 and 3; specials also 6) of the C02-C06 families, without the heavy C06 matrix templates, C02:matrix_chain and C02:four_levels", "passes": "2 / 3"},
        "outside": PIPE_OUTSIDE + ["whether Skia's simplify is idempotent on its own output bytes (C++; modelled)", "float repr round-trip (CPython guarantee)"],
        "stubs": common.mods().stubs + FP.CONTRACT,
        "assumptions": FP.CONTRACT + ["floats as reals", "round contract"],
    }
