"""C19 - clipping to the viewBox and bounding boxes are geometrically exact.

Leaf: Rect.intersection/union/empty with symbolic rectangles and a symbolic
sample point; SVGShape.bounding_box / SVG.bounding_box from (abstract) tight
bounds.  Pipeline: SVG.clip_to_viewbox on picosvg-shaped documents with a
symbolic viewBox and symbolic geometry under the abstract Skia.
"""
import itertools

import z3
from lxml import etree

from sx import common, regions
from sx import fake_pathops as FP
from sx.dual import replay_concrete
from sx.spec import path_interp as PI
from sx.values import SymReal, term_of, sym_min, sym_max

PROPERTY = "C19"


def rect(h, stem, positive=True):
    v = [h.real(f"{stem}{c}") for c in "xywh"]
    if positive:
        h.assume(v[2] > 0)
        h.assume(v[3] > 0)
    return v


def mn(h, a, b):
    return sym_min(a, b) if h.symbolic else min(a, b)


def mx(h, a, b):
    return sym_max(a, b) if h.symbolic else max(a, b)


def inside_open(h, r, q):
    return h.and_(h.lt(r[0], q[0]), h.lt(q[0], r[0] + r[2]), h.lt(r[1], q[1]), h.lt(q[1], r[1] + r[3]))


# ------------------------------------------------------------------- leaf
def h_intersection(h):
    Rect = h.m.geometric_types.Rect
    a, b = rect(h, "a"), rect(h, "b")
    q = (h.real("qx"), h.real("qy"))
    res = Rect(*a).intersection(Rect(*b))
    x0, y0 = mx(h, a[0], b[0]), mx(h, a[1], b[1])
    x1, y1 = mn(h, a[0] + a[2], b[0] + b[2]), mn(h, a[1] + a[3], b[1] + b[3])
    overlap = h.and_(h.lt(x0, x1), h.lt(y0, y1))
    if res is None:
        h.tag("none")
        h.check(h.not_(overlap), "intersection.none_only_when_disjoint")
        # no point is strictly inside both
        h.check(h.not_(h.and_(inside_open(h, a, q), inside_open(h, b, q))), "intersection.none_pointwise")
        return [None]
    h.tag("rect")
    h.check(overlap, "intersection.rect_only_when_overlapping")
    h.check_eq(res.x, x0, "intersection.x")
    h.check_eq(res.y, y0, "intersection.y")
    h.check_eq(res.w, x1 - x0, "intersection.w")
    h.check_eq(res.h, y1 - y0, "intersection.h")
    both = h.and_(inside_open(h, a, q), inside_open(h, b, q))
    inr = inside_open(h, list(res), q)
    h.check(h.and_(h.implies(both, inr), h.implies(inr, both)), "intersection.pointwise")
    return list(res)


def h_union(h):
    Rect = h.m.geometric_types.Rect
    a, b = rect(h, "a", positive=False), rect(h, "b", positive=False)
    h.assume(a[2] >= 0)
    h.assume(a[3] >= 0)
    h.assume(b[2] >= 0)
    h.assume(b[3] >= 0)
    res = Rect(*a).union(Rect(*b))
    x0, y0 = mn(h, a[0], b[0]), mn(h, a[1], b[1])
    x1, y1 = mx(h, a[0] + a[2], b[0] + b[2]), mx(h, a[1] + a[3], b[1] + b[3])
    h.check_eq(res.x, x0, "union.x")
    h.check_eq(res.y, y0, "union.y")
    h.check_eq(res.x + res.w, x1, "union.xmax")
    h.check_eq(res.y + res.h, y1, "union.ymax")
    h.check_eq(Rect(*a).x_max, a[0] + a[2], "x_max")
    h.check_eq(Rect(*a).y_max, a[1] + a[3], "y_max")
    e = Rect(*a).empty()
    h.check(bool(e) == bool(h.is_true(h.or_(h.eq(a[2], 0), h.eq(a[3], 0)))), "empty")
    return list(res)


def h_shape_bbox(h):
    """polyline shapes: exact box of the points; touches all four sides"""
    T = h.m.svg_types
    n = 2 + h.choose(3, "npts")
    closed = h.choose(2, "closed")
    pts = [(h.real(f"x{i}"), h.real(f"y{i}")) for i in range(n)]
    tok = (lambda v: str(v)) if h.symbolic else (lambda v: repr(float(v)))
    d = "M" + " L".join(f"{tok(x)},{tok(y)}" for x, y in pts) + (" Z" if closed else "")
    bb = T.SVGPath(d=d).bounding_box()
    xs, ys = [p[0] for p in pts], [p[1] for p in pts]
    conds = []
    for x, y in pts:
        conds += [h.le(bb.x, x), h.le(x, bb.x + bb.w), h.le(bb.y, y), h.le(y, bb.y + bb.h)]
    h.check(h.and_(*conds), "bounding_box.contains_every_point")
    h.check(h.or_(*[h.eq(bb.x, x) for x in xs]), "bounding_box.touches_left")
    h.check(h.or_(*[h.eq(bb.x + bb.w, x) for x in xs]), "bounding_box.touches_right")
    h.check(h.or_(*[h.eq(bb.y, y) for y in ys]), "bounding_box.touches_top")
    h.check(h.or_(*[h.eq(bb.y + bb.h, y) for y in ys]), "bounding_box.touches_bottom")
    return list(bb)


def h_shape_bbox_curved(h):
    """curved shapes: Rect(x1, y1, x2-x1, y2-y1) of the tight bounds Skia reports
    for exactly this geometry"""
    T = h.m.svg_types
    c = [h.real(f"c{i}") for i in range(8)]
    tok = (lambda v: str(v)) if h.symbolic else (lambda v: repr(float(v)))
    kind = h.pick(["C", "Q", "circle", "rect"], "kind")
    if kind == "C":
        shape = T.SVGPath(d=f"M{tok(c[0])},{tok(c[1])} C{tok(c[2])},{tok(c[3])} {tok(c[4])},{tok(c[5])} {tok(c[6])},{tok(c[7])} Z")
    elif kind == "Q":
        shape = T.SVGPath(d=f"M{tok(c[0])},{tok(c[1])} q{tok(c[2])},{tok(c[3])} {tok(c[4])},{tok(c[5])}")
    elif kind == "rect":
        h.assume(c[2] >= 0)
        h.assume(c[3] >= 0)
        shape = T.SVGRect(x=c[0], y=c[1], width=c[2], height=c[3])
    else:
        return []  # circles need arcs: covered through clip_to_viewbox templates with abstract bounds
    bb = shape.bounding_box()
    if not h.symbolic:
        import pathops

        p = pathops.Path()
        for cmd, args in shape.as_cmd_seq():
            {"M": p.moveTo, "L": p.lineTo, "Q": p.quadTo, "C": p.cubicTo, "Z": p.close}[cmd](*args)
        x1, y1, x2, y2 = p.bounds
    else:
        cmds = [(cmd, tuple(args)) for cmd, args in shape.as_cmd_seq()]
        t = regions.term_of_commands(cmds)
        reg = FP._registry()
        b = None
        for cand, bnd in reg.get("bounds_terms", []):
            if cand.key == t.key:
                b = bnd
        if b is None:
            # never asked for the tight bounds of this geometry: compare with them all the same
            p = FP.Path()
            for cmd, args in cmds:
                {"M": p.moveTo, "L": p.lineTo, "Q": p.quadTo, "C": p.cubicTo, "Z": p.close}[cmd](*args)
            b = p.bounds
        x1, y1, x2, y2 = b
    h.check(h.and_(h.eq(bb.x, x1), h.eq(bb.y, y1), h.eq(bb.x + bb.w, x2), h.eq(bb.y + bb.h, y2)), "bounding_box.is_the_tight_box")
    return []


def h_doc_bbox(h):
    S = h.m.svg
    n = h.choose(4, "nshapes")
    tok = (lambda v: str(v)) if h.symbolic else (lambda v: repr(float(v)))
    els, boxes = [], []
    for i in range(n):
        r = rect(h, f"r{i}_", positive=False)
        h.assume(r[2] >= 0)
        h.assume(r[3] >= 0)
        els.append(f'<rect x="{tok(r[0])}" y="{tok(r[1])}" width="{tok(r[2])}" height="{tok(r[3])}"/>')
        boxes.append(r)
    grp = h.choose(2, "grouped")
    body = "".join(els)
    if grp and n >= 2:
        body = f'<g opacity="0.5">{els[0]}{els[1]}</g>' + "".join(els[2:])
    svg = S.SVG.fromstring(f'<svg xmlns="http://www.w3.org/2000/svg" viewBox="0 0 10 10">{body}</svg>')
    bb = svg.bounding_box()
    if n == 0:
        h.check(bb is None, "doc_bbox.none_without_shapes")
        return [None]
    if not h.check(bb is not None, "doc_bbox.some_with_shapes"):
        return [None]
    x0 = boxes[0][0]
    y0 = boxes[0][1]
    x1 = boxes[0][0] + boxes[0][2]
    y1 = boxes[0][1] + boxes[0][3]
    for r in boxes[1:]:
        x0, y0 = mn(h, x0, r[0]), mn(h, y0, r[1])
        x1, y1 = mx(h, x1, r[0] + r[2]), mx(h, y1, r[1] + r[3])
    h.check_eq(bb.x, x0, "doc_bbox.x")
    h.check_eq(bb.y, y0, "doc_bbox.y")
    h.check_eq(bb.x + bb.w, x1, "doc_bbox.xmax")
    h.check_eq(bb.y + bb.h, y1, "doc_bbox.ymax")
    return list(bb)


# ------------------------------------------------------------- clip_to_viewbox
SHAPE_KINDS = ["poly", "curve", "evenodd", "quad"]


def make_clip(case):
    kinds = case["shapes"]
    group = case.get("group")  # None | "pair" (first two in a translucent group)

    def harness(h):
        S = h.m.svg
        ctx = h.ctx if h.symbolic else None
        tok = (lambda v: str(v)) if h.symbolic else (lambda v: repr(float(v)))
        vb = rect(h, "vb")
        els, info = [], []
        for i, kind in enumerate(kinds):
            if kind == "poly":
                p = [h.real(f"s{i}_{j}") for j in range(6)]
                d = f"M{tok(p[0])},{tok(p[1])} L{tok(p[2])},{tok(p[3])} L{tok(p[4])},{tok(p[5])} Z"
                fr = "nonzero"
                cmds = [("M", (p[0], p[1])), ("L", (p[2], p[3])), ("L", (p[4], p[5])), ("Z", ())]
            elif kind == "curve":
                p = [h.real(f"s{i}_{j}") for j in range(8)]
                d = f"M{tok(p[0])},{tok(p[1])} C{tok(p[2])},{tok(p[3])} {tok(p[4])},{tok(p[5])} {tok(p[6])},{tok(p[7])} Z"
                fr = "nonzero"
                cmds = [("M", (p[0], p[1])), ("C", tuple(p[2:8])), ("Z", ())]
            elif kind == "quad":
                p = [h.real(f"s{i}_{j}") for j in range(6)]
                d = f"M{tok(p[0])},{tok(p[1])} Q{tok(p[2])},{tok(p[3])} {tok(p[4])},{tok(p[5])} Z"
                fr = "nonzero"
                cmds = [("M", (p[0], p[1])), ("Q", tuple(p[2:6])), ("Z", ())]
            else:
                p = [h.real(f"s{i}_{j}") for j in range(6)]
                d = f"M{tok(p[0])},{tok(p[1])} L{tok(p[2])},{tok(p[3])} L{tok(p[4])},{tok(p[5])} Z"
                fr = "evenodd"
                cmds = [("M", (p[0], p[1])), ("L", (p[2], p[3])), ("L", (p[4], p[5])), ("Z", ())]
            fill = ["red", "url(#g)", "blue"][i % 3]
            attrs = f'fill="{fill}"' + (' fill-rule="evenodd"' if fr == "evenodd" else "") + (' opacity="0.25"' if i == 1 else "")
            els.append(f'<path id="p{i}" {attrs} d="{d}"/>')
            info.append({"cmds": cmds, "fill_rule": fr, "fill": fill, "id": f"p{i}"})
        body = "".join(els)
        if group == "pair" and len(els) >= 2:
            body = f'<g opacity="0.5">{els[0]}{els[1]}</g>' + "".join(els[2:])
        doc = (
            f'<svg xmlns="http://www.w3.org/2000/svg" viewBox="{tok(vb[0])} {tok(vb[1])} {tok(vb[2])} {tok(vb[3])}">'
            f'<defs><linearGradient id="g"><stop offset="0"/></linearGradient></defs>{body}</svg>'
        )
        svg = S.SVG.fromstring(doc)
        out = svg.clip_to_viewbox()
        root = etree.fromstring(out.tostring().encode("utf-8"))
        ns = "{http://www.w3.org/2000/svg}"
        out_paths = [e for e in root.iter(ns + "path")]
        by_id = {e.get("id"): e for e in out_paths}
        # order of survivors preserved
        order = [e.get("id") for e in out_paths]
        h.check(order == sorted(order, key=lambda s: int(s[1:])), "clip.order_preserved", detail=order)
        kept = []
        for i, inf in enumerate(info):
            e = by_id.get(inf["id"])
            b = _bounds(h, inf["cmds"])
            bx0, by0, bx1, by1 = b
            ix0, iy0 = mx(h, bx0, vb[0]), mx(h, by0, vb[1])
            ix1, iy1 = mn(h, bx1, vb[0] + vb[2]), mn(h, by1, vb[1] + vb[3])
            overlap = h.and_(h.lt(ix0, ix1), h.lt(iy0, iy1))
            if e is None:
                h.tag("dropped")
                h.check(h.not_(overlap), "clip.dropped_only_when_outside")
                continue
            kept.append(i)
            h.check(overlap, "clip.kept_only_when_overlapping")
            h.check(e.get("fill") == inf["fill"], "clip.paint_unchanged")
            cmds_out = [(c, tuple(a)) for c, a in (h.m.svg_types.SVGPath(d=e.get("d") or ""))]
            inside = h.and_(h.le(vb[0], bx0), h.le(bx1, vb[0] + vb[2]), h.le(vb[1], by0), h.le(by1, vb[1] + vb[3]))
            if not h.symbolic:
                _concrete_clip_check(h, inf, cmds_out, vb, e)
                flat_in = [float(a) for _, args in inf["cmds"] for a in args]
                flat_out = [float(a) for _, args in cmds_out for a in args]
                untouched = [c for c, _ in cmds_out] == [c for c, _ in inf["cmds"]] and all(
                    abs(x - y) <= 1e-6 * (1 + abs(x)) for x, y in zip(flat_in, flat_out)
                )
                if untouched:
                    h.check(inside, "clip.untouched_only_when_inside", detail=(list(b), list(vb)))
                continue
            got = regions.term_of_commands(cmds_out, FP.FillType.EVEN_ODD if e.get("fill-rule") == "evenodd" else FP.FillType.WINDING)
            leaf = _leaf(inf["cmds"], inf["fill_rule"])
            if got.kind == "leaf":
                # untouched: allowed only when the bounds lie inside the viewBox
                h.tag("untouched")
                ok, det = regions.equivalent(h.ctx, leaf, got)
                h.check(ok, "clip.untouched_geometry_unchanged", detail=det)
                h.check(inside, "clip.untouched_only_when_inside")
                h.check((e.get("fill-rule") or "nonzero") == inf["fill_rule"], "clip.untouched_fill_rule")
            else:
                h.tag("clipped")
                # clip rectangle = bounds ∩ viewBox (same region as shape ∩ viewBox because the shape lies in its bounds)
                crect = [("M", (ix0, iy0)), ("L", (ix1, iy0)), ("L", (ix1, iy1)), ("L", (ix0, iy1)), ("L", (ix0, iy0)), ("Z", ())]
                cl = _leaf(crect, "nonzero")
                exp = FP.Term("op", (FP.PathOp.INTERSECTION, leaf, cl), ("op", int(FP.PathOp.INTERSECTION), leaf.key, cl.key))
                ok, det = regions.equivalent(h.ctx, exp, got)
                h.check(ok, "clip.region_is_shape_intersect_viewbox", detail=det)
                h.check((e.get("fill-rule") or "nonzero") == "nonzero", "clip.clipped_fill_rule_nonzero")
        # groups: a surviving <g> has >= 2 children
        for g in root.iter(ns + "g"):
            n_children = len([c for c in g if isinstance(c.tag, str)])
            h.check(n_children >= 2, "clip.no_useless_group", detail=n_children)
        return [len(kept)]

    return harness


def _leaf(cmds, fill_rule):
    verbs, coords = [], []
    for c, a in cmds:
        verbs.append(c)
        coords += list(a)
    return FP.leaf_term(verbs, FP.FillType.EVEN_ODD if fill_rule == "evenodd" else FP.FillType.WINDING, coords)


def _bounds(h, cmds):
    """bounds as the abstract Skia reported them for this geometry (tight by contract)"""
    if not h.symbolic:
        import pathops

        p = pathops.Path()
        for cmd, args in cmds:
            {"M": p.moveTo, "L": p.lineTo, "Q": p.quadTo, "C": p.cubicTo, "Z": p.close}[cmd](*args)
        return p.bounds
    t = _leaf(cmds, "nonzero")
    reg = FP._registry()
    atoms = regions.Atoms(h.ctx)
    for cand, bnd in reg.get("bounds_terms", []):
        if cand.kind == "leaf" and cand.args[0] == t.args[0] and atoms._coords_equal(cand.args[2], t.args[2]):
            return bnd
    # the implementation never asked for the tight bounds of this geometry: they are still what the
    # property is about (exact for polylines, the abstract tight box for curves)
    p = FP.Path()
    for cmd, args in cmds:
        {"M": p.moveTo, "L": p.lineTo, "Q": p.quadTo, "C": p.cubicTo, "Z": p.close}[cmd](*args)
    return p.bounds


def _concrete_clip_check(h, inf, cmds_out, vb, e):
    """replay oracle: sample points, real Skia result vs shape ∩ viewBox"""
    from sx.spec import winding as W

    pin = W.contours(PI.interp(inf["cmds"]))
    pout = W.contours(PI.interp(cmds_out))
    rule_out = e.get("fill-rule") or "nonzero"
    allp = pin + pout
    bad = 0
    for q in W.grid(W.bbox(allp), n=31):
        if W.edge_distance(allp, q) < 0.02 * max(vb[2], vb[3]):
            continue
        # stay off the viewBox border as well
        if min(abs(q[0] - vb[0]), abs(q[0] - vb[0] - vb[2]), abs(q[1] - vb[1]), abs(q[1] - vb[1] - vb[3])) < 0.02 * max(vb[2], vb[3]):
            continue
        in_vb = vb[0] < q[0] < vb[0] + vb[2] and vb[1] < q[1] < vb[1] + vb[3]
        want = W.inside(pin, q, inf["fill_rule"]) and in_vb
        got = W.inside(pout, q, rule_out)
        if want != got:
            bad += 1
    h.check(bad == 0, "clip.region_is_shape_intersect_viewbox", detail=bad)


LEAF = {
    "intersection": h_intersection,
    "union": h_union,
    "shape_bbox": h_shape_bbox,
    "shape_bbox_curved": h_shape_bbox_curved,
    "doc_bbox": h_doc_bbox,
}


def cases(tier, seed):
    cs = [{"kind": "leaf", "name": n} for n in LEAF]
    nmax = 2 if tier == "quick" else 3
    for n in range(1, nmax + 1):
        for combo in itertools.product(SHAPE_KINDS, repeat=n):
            cs.append({"kind": "clip", "shapes": list(combo)})
            if n >= 2:
                cs.append({"kind": "clip", "shapes": list(combo), "group": "pair"})
    return cs


def harness_for(case):
    if case["kind"] == "leaf":
        return LEAF[case["name"]]
    return make_clip(case)


def run_case(case, tier):
    m = common.mods(fake_skia=True)
    return common.run_symbolic(
        harness_for(case),
        mods_=m,
        timeout_ms=10000 if tier == "quick" else 30000,
        opts={"snap_cut": True},
        validate_every=12,
        trace_first=1,
        compare_obs=case["kind"] == "leaf" and case["name"] not in ("shape_bbox_curved",),
        max_paths=60000,
    )


def finding_key(case, failure):
    k = {"kind": case["kind"], "label": failure["label"]}
    if case["kind"] == "leaf":
        k["name"] = case["name"]
    else:
        k["shapes"] = "+".join(case["shapes"])
        k["group"] = case.get("group") or ""
    return k


def replay(case, failure):
    return replay_concrete(harness_for(case), failure)


def describe(tier):
    return {
        "explanation": (
            "Symbolic execution of Rect.intersection/union/empty/x_max/y_max, SVGShape.bounding_box, SVG.bounding_box and "
            "SVG.clip_to_viewbox (with _elements/_set_element/_update_etree/_try_remove_group) on picosvg-shaped documents whose "
            "viewBox and path coordinates are z3 reals; abstract Skia supplies bounds (exact for polylines, opaque but "
            "region-containing for curves) and region terms; the output region of every shape must be propositionally equivalent "
            "to shape ∩ (bounds ∩ viewBox), dropped iff bounds and viewBox have disjoint interiors, untouched iff bounds ⊆ viewBox."
        ),
        "bounds": {
            "documents": f"1..{2 if tier == 'quick' else 3} paths of kinds polyline triangle / closed cubic / evenodd triangle / closed quadratic, optionally the first two in a translucent group",
            "numbers": "viewBox (w,h>0) and all coordinates: every real",
        },
        "outside": [
            "tightness of Skia's bounds on curves (computeTightBounds; trusted, observed tight in probe P6)",
            "that Skia's intersection is the set intersection (C13 note)",
            "the 1e-9 snap band (assumed empty; C09)",
        ],
        "stubs": common.mods().stubs + FP.CONTRACT,
        "assumptions": FP.CONTRACT + ["floats modelled as exact reals"],
    }
