"""C08 - converted documents have no duplicate, dangling or orphaned references."""
from checks import pool, outcheck
from checks.pipeline_common import symbols, instantiate, run_template_case, PIPE_OUTSIDE
from sx import common
from sx import fake_pathops as FP
from sx.dual import replay_concrete

PROPERTY = "C08"


def make_harness(template):
    def harness(h):
        S = h.m.svg
        vals = symbols(h, template)
        src = instantiate(h, template, vals)
        try:
            out = S.SVG.fromstring(src).topicosvg().tostring()
        except (ValueError, ZeroDivisionError, AssertionError, NotImplementedError) as e:
            h.tag("raised:" + type(e).__name__)
            return ["raised"]
        outcheck.refs_check(h, out)
        return [len(out)]

    return harness


def cases(tier, seed):
    return [{"template": k} for k in pool.subset(pool.family_templates(tier), tier, seed, every=4)]


def harness_for(case):
    return make_harness(pool.family_templates("thorough")[case["template"]])


def run_case(case, tier):
    # areas are NOT assumed positive here: invisible users of a gradient are the subject
    return run_template_case(harness_for(case), tier, opts={"assume_positive_area": False, "tol_cut": True}, max_paths=600)


def finding_key(case, failure):
    return {"template": case["template"], "label": failure["label"]}


def replay(case, failure):
    return replay_concrete(harness_for(case), failure, allowed_exceptions=(ValueError, ZeroDivisionError, AssertionError, NotImplementedError))


def describe(tier):
    return {
        "explanation": (
            "topicosvg on the union of the template families plus id-sharing templates (one gradient shared by transformed, "
            "untransformed and possibly invisible shapes - opacity and area symbolic -, an id'd shape that is stroked, an id'd "
            "group instanced twice, pre-existing ids colliding with generated ones, nested svg needing a generated clip id).  "
            "Which shapes survive and which gradients are cloned depends on numeric forks (opacity = 0, area = 0, transform = "
            "identity) - those are what the solver quantifies over.  Oracle on every output: ids unique, every url(#)/href resolves "
            "to a gradient in defs, every gradient in defs is referenced."
        ),
        "bounds": {"templates": "every special template + a seed-rotated quarter of the C02-C06 families (quick) / all except the heavy C06 matrix templates, C02:matrix_chain and C02:four_levels (thorough)"},
        "outside": PIPE_OUTSIDE,
        "stubs": common.mods().stubs + FP.CONTRACT,
        "assumptions": FP.CONTRACT + ["floats as reals"],
    }
