"""Structural oracles on converted documents, shared by C01 / C07 / C08 / C14.

Written from the README grammar and the property texts; they read the output
string with lxml only (never through picosvg).
"""
import re

import z3
from lxml import etree

from sx import pipeline
from sx.values import SymReal, SymBool, term_of, from_placeholder, PH_OPEN

SVGNS = "http://www.w3.org/2000/svg"
XLINKNS = "http://www.w3.org/1999/xlink"
NS = "{%s}" % SVGNS
PRESENTATION = {
    "clip-rule", "color", "display", "fill", "fill-rule", "style", "transform", "stroke", "stroke-width", "stroke-linecap",
    "stroke-linejoin", "stroke-miterlimit", "stroke-dasharray", "stroke-dashoffset", "stroke-opacity", "fill-opacity",
    "opacity", "clip-path", "overflow",
}
TEXT_TAGS = {"text", "textPath", "tspan"}
NUM_TOKEN = re.compile(r"%s\d+%s|[-+]?(?:\d+\.?\d*|\.\d+)(?:[eE][-+]?\d+)?" % (PH_OPEN, PH_OPEN))


def parse_full(text):
    """keep comments and PIs: the grammar forbids them"""
    parser = etree.XMLParser(remove_comments=False, remove_blank_text=True, resolve_entities=False)
    return etree.fromstring(text.encode("utf-8"), parser)


def local(tag):
    return tag.split("}")[-1]


def _is_rounded(h, tok, ndigits):
    """a printed number is round(., ndigits) of something, or a literal with <= ndigits decimals"""
    if PH_OPEN in tok:
        v = from_placeholder(tok)
        if v is None:
            return False
        t = v.t
        if z3.is_app(t) and t.decl().name() == f"sx_round_{ndigits}".replace("-", "m"):
            return True
        if z3.is_app(t) and t.decl().name() == "sx_round_int":
            return True
        # a rounded value may have been negated/added to nothing else: accept only direct applications
        ts = z3.simplify(t)
        if z3.is_rational_value(ts) or z3.is_int_value(ts):
            return True
        return False
    if "e" in tok.lower():
        return float(tok) == round(float(tok), ndigits)
    frac = tok.split(".")[1] if "." in tok else ""
    return len(frac.rstrip("0")) <= max(ndigits, 0)


def grammar_check(h, out_text, ndigits, allow_text=False):
    """README picosvg grammar + the attribute/path-data half nothing else checks"""
    root = parse_full(out_text)
    ok = True

    def bad(label, detail=None):
        nonlocal ok
        ok = False
        h.check(False, "grammar." + label, detail=detail)

    if local(root.tag) != "svg" or not root.tag.startswith(NS):
        bad("root_is_svg", root.tag)
        return False
    for a in root.attrib:
        if a in PRESENTATION:
            bad("root_has_no_inheritable_presentation_attribute", a)
    kids = list(root)
    for n in root.iter():
        if not isinstance(n.tag, str):
            bad("no_comment_or_processing_instruction", str(n)[:60])
            continue
        if not n.tag.startswith(NS):
            bad("no_foreign_namespace_element", n.tag)
        for a in n.attrib:
            if a.startswith("{") and not a.startswith("{" + SVGNS):
                bad("no_foreign_or_xlink_attribute", a)
    elem_kids = [k for k in kids if isinstance(k.tag, str)]
    if not elem_kids or local(elem_kids[0].tag) != "defs":
        bad("first_child_is_defs", [local(k.tag) for k in elem_kids][:4])
    if sum(1 for n in root.iter(NS + "defs")) != 1:
        bad("exactly_one_defs")
    for d in root.iter(NS + "defs"):
        for g in d:
            if not isinstance(g.tag, str):
                continue
            if local(g.tag) not in ("linearGradient", "radialGradient"):
                bad("defs_holds_only_gradients", local(g.tag))
                continue
            if not g.get("id"):
                bad("gradient_has_id")
            if g.get("href") or g.get("{%s}href" % XLINKNS):
                bad("gradient_has_no_href")
            for a, v in g.attrib.items():
                if a in ("x1", "y1", "x2", "y2", "cx", "cy", "r", "fx", "fy", "fr") and not NUM_TOKEN.fullmatch(v.strip()):
                    bad("gradient_coordinates_are_numbers", (a, v))
            for s in g:
                if isinstance(s.tag, str) and local(s.tag) != "stop":
                    bad("gradient_children_are_stops", local(s.tag))

    def walk(e, depth):
        for ch in e:
            if not isinstance(ch.tag, str):
                continue
            t = local(ch.tag)
            if t == "defs" and e is root:
                continue
            if t == "g":
                n = sum(1 for c in ch if isinstance(c.tag, str))
                if n < 2:
                    bad("group_has_at_least_two_children", n)
                extra = [a for a in ch.attrib if a != "opacity"]
                if extra:
                    bad("group_carries_only_opacity", extra)
                if "opacity" not in ch.attrib:
                    bad("kept_group_has_an_opacity")
                else:
                    o = pipeline.sym_num(ch.get("opacity")) if h.symbolic else float(ch.get("opacity"))
                    h.check(h.and_(h.lt(0, o), h.lt(o, 1)), "grammar.group_opacity_strictly_between_0_and_1")
                walk(ch, depth + 1)
            elif t == "path":
                for a in ch.attrib:
                    if a.startswith("stroke") or a in ("transform", "clip-path", "style", "display", "clip-rule"):
                        bad("path_is_a_plain_fill", a)
                if ch.get("fill-rule") == "evenodd":
                    bad("path_fill_rule_not_evenodd")
                if any(isinstance(c.tag, str) for c in ch):
                    bad("path_has_no_children")
                d = ch.get("d") or ""
                letters = re.sub(NUM_TOKEN, "", d)
                letters = re.sub(r"[\s,]", "", letters)
                if any(c not in "MLCQAZ" for c in letters):
                    bad("path_data_only_absolute_MLCQAZ", letters[:40])
                toks = NUM_TOKEN.findall(d)
                # arc flags are not coordinates
                unr = [t_ for t_ in toks if not _is_rounded(h, t_, ndigits)]
                if unr:
                    bad("path_numbers_rounded_to_ndigits", unr[:3])
            elif allow_text and t in TEXT_TAGS:
                continue
            else:
                bad("only_g_and_path_after_defs", t)

    walk(root, 0)
    if ok:
        h.check(True, "grammar.conforms")
    return ok


def refs_check(h, out_text):
    """unique ids, every paint reference resolves to a gradient in defs, every gradient is used"""
    root = parse_full(out_text)
    ids = [e.get("id") for e in root.iter() if isinstance(e.tag, str) and e.get("id")]
    dup = sorted({i for i in ids if ids.count(i) > 1})
    h.check(not dup, "refs.ids_unique", detail=dup)
    grads = {}
    for d in root.iter(NS + "defs"):
        for g in d:
            if isinstance(g.tag, str) and g.get("id"):
                grads[g.get("id")] = g
    used = set()
    for e in root.iter():
        if not isinstance(e.tag, str):
            continue
        for a, v in e.attrib.items():
            for m in re.finditer(r"url\(#([^)]+)\)", v):
                used.add(m.group(1))
                h.check(m.group(1) in grads, "refs.paint_reference_resolves_to_gradient_in_defs", detail=(a, v))
            if a.endswith("href") and v.startswith("#"):
                used.add(v[1:])
                h.check(v[1:] in set(ids), "refs.href_resolves", detail=v)
    unused = sorted(set(grads) - used)
    h.check(not unused, "refs.no_unused_gradient_in_defs", detail=unused)


def canon(text, ordered=False):
    """(structure signature, list of numeric tokens) of a document; ordered=True keeps the
    attributes in document order (byte-level properties: C16)"""
    root = parse_full(text)
    sig, nums = [], []

    def walk(e):
        if not isinstance(e.tag, str):
            sig.append("#node")
            return
        sig.append("<" + local(e.tag))
        for a in (list(e.attrib) if ordered else sorted(e.attrib)):
            v = e.attrib[a]
            toks = NUM_TOKEN.findall(v) if a not in ("id", "fill", "stop-color", "offset") or PH_OPEN in v else []
            if a == "offset":
                toks = NUM_TOKEN.findall(v)
            skeleton = NUM_TOKEN.sub("#", v) if toks else v
            sig.append(f"{a}={skeleton}")
            nums.extend(toks)
        for c in e:
            walk(c)
        sig.append(">")

    walk(root)
    return sig, nums


def same_document(h, a_text, b_text, label, ordered=False):
    """same XML structure and attribute names, every number provably equal"""
    sa, na = canon(a_text, ordered)
    sb, nb = canon(b_text, ordered)
    if sa != sb or len(na) != len(nb):
        diff = next((i for i, (x, y) in enumerate(zip(sa, sb)) if x != y), min(len(sa), len(sb)))
        return h.check(False, label + ".structure", detail={"first_difference": [sa[max(0, diff - 2) : diff + 3], sb[max(0, diff - 2) : diff + 3]]})
    conds = []
    for x, y in zip(na, nb):
        if x == y:
            continue
        vx = pipeline.sym_num(x) if h.symbolic else float(x)
        vy = pipeline.sym_num(y) if h.symbolic else float(y)
        conds.append(h.eq(vx, vy))
    if not conds:
        return h.check(True, label)
    return h.check(h.and_(*conds), label + ".numbers")
