"""Template documents for the pipeline properties (DESIGN 1.5) and the common
harness: concrete element structure, every number written `{name}` is a fresh
symbolic real (range by name prefix), whole conversion under the loader with
abstract Skia, rendering of source vs output compared by sx.pipeline.
"""
import fractions
import re

from sx import common, pipeline
from sx import fake_pathops as FP
from sx.dual import replay_concrete

F = fractions.Fraction
SVG_OPEN = '<svg xmlns="http://www.w3.org/2000/svg" xmlns:xlink="http://www.w3.org/1999/xlink" viewBox="0 0 100 100"{rootattrs}>'

NAME_RE = re.compile(r"\{([A-Za-z_][A-Za-z0-9_]*)\}")


def symbols(h, text):
    """declare one real per {name}; ranges by prefix:
    o* in [0,1] (opacities)  w*,h*,r*,s* > 0 (sizes, scales, stroke widths)  others free"""
    vals = {}
    for n in NAME_RE.findall(text):
        if n in vals or n == "rootattrs":
            continue
        v = h.real(n)
        if n[0] == "o":
            h.assume(v >= 0)
            h.assume(v <= 1)
        elif n[0] in "whrs":
            h.assume(v > 0)
        vals[n] = v
    return vals


def instantiate(h, text, vals):
    def sub(m):
        n = m.group(1)
        if n == "rootattrs":
            return ""
        return pipeline.tok(h, vals[n])

    return NAME_RE.sub(sub, text)


def doc(body, rootattrs=""):
    return SVG_OPEN.replace("{rootattrs}", (" " + rootattrs) if rootattrs else "") + body + "</svg>"


def nondegenerate(h, vals, names):
    """assume the 2x2 part named (a,b,c,d) is invertible"""
    a, b, c, d = (vals[n] for n in names)
    det = a * d - b * c
    h.assume(h.not_(h.eq(det, 0)))


def make_render_harness(template, label, convert=None, extra_assume=None, extra_check=None):
    """template: document text with {symbols}.  Runs topicosvg and asserts that
    source and output render identically."""

    def harness(h):
        S = h.m.svg
        vals = symbols(h, template)
        if extra_assume:
            extra_assume(h, vals)
        src = instantiate(h, template, vals)
        svg = S.SVG.fromstring(src)
        rec = None
        if not h.symbolic:
            rec = pipeline.SkiaCallRecorder()
            rec.__enter__()
        try:
            if convert is None:
                out_svg = svg.topicosvg()
            else:
                out_svg = convert(h, svg)
        finally:
            if rec is not None:
                rec.__exit__()
        out = out_svg.tostring()
        tol = 0.1  # no viewBox: the documented absolute default
        vb = svg.view_box()
        if vb is not None:
            if h.symbolic:
                from sx.values import sym_min

                tol = sym_min(vb.w, vb.h) * 0.1 / 100
            else:
                tol = min(vb.w, vb.h) * 0.1 / 100
        pipeline.same_rendering(h, src, out, label, tolerance=tol, skia_calls=rec)
        if extra_check:
            extra_check(h, src, out, vals)
        return [out if not h.symbolic else len(out)]

    return harness


PIPE_OPTS = {
    "snap_cut": True,
    "round_identity": True,  # rounding size is outside the rendering claims (C01/C07 decide rounding)
    "assume_positive_area": True,
    "axioms": ("pythagoras",),  # sin^2+cos^2=1: a rotation is never singular
    "sym_hash": True,  # dict keys holding symbolic numbers compare by solver-decided equality
}


def run_template_case(harness, tier, opts=None, validate_every=6, max_paths=3000):
    m = common.mods(fake_skia=True)
    o = dict(PIPE_OPTS)
    if opts:
        o.update(opts)
    return common.run_symbolic(
        harness,
        mods_=m,
        timeout_ms=15000 if tier == "quick" else 60000,
        opts=o,
        validate_every=validate_every,
        trace_first=1,
        compare_obs=False,
        max_paths=max_paths,
        allowed=(ValueError, ZeroDivisionError, AssertionError),
    )


PIPE_OUTSIDE = [
    "that Skia's op()/stroke()/simplify() compute what their names say (C++; trusted contract, see C13 note)",
    "IEEE rounding; the size of round_floats / gradient 6-digit rounding (round is the identity in these harnesses)",
    "the 1e-9 snap band of _rewrite_path (assumed empty; decided in C09)",
    "arcs (circle, ellipse, rounded rect, A commands) inside pipeline templates: arc conversion is C09/C12",
    "numeric coincidences between different printed numbers that the code compares as strings (generic position)",
    "zero-area shapes (areas assumed positive here; pruning is C18)",
    "structures deeper/wider than the template families",
]


def replay_render(harness, failure, variants=()):
    """Replay a rendering witness on the real package.  The solver chooses the
    coverage pattern of the sample point freely (Boolean atoms), so the model's
    geometry need not realise it; if the model does not reproduce, retry with the
    model's non-geometric values (opacities, widths, transforms) on geometry in
    which all shapes overlap."""
    exc = (ValueError, ZeroDivisionError, AssertionError)
    rep = replay_concrete(harness, failure, allowed_exceptions=exc)
    if rep.get("reproduced"):
        return rep
    for geom in variants:
        inp = dict(failure["inputs"])
        inp.update({k: str(v) for k, v in geom.items()})
        f2 = dict(failure)
        f2["inputs"] = inp
        r2 = replay_concrete(harness, f2, allowed_exceptions=exc)
        if r2.get("reproduced"):
            r2["detail"] = "battery geometry: " + r2["detail"]
            return r2
    for variant in (0, 1):
        inp = dict(failure["inputs"])
        for k in list(inp):
            if re.fullmatch(r"[xy]\d*", k) or re.fullmatch(r"[uv][xy]", k):
                inp[k] = "0" if variant == 0 else "1"
            elif re.fullmatch(r"[wh]\d+", k):
                inp[k] = "10"
            elif re.fullmatch(r"p[xy]\d", k):
                i = int(k[2])
                inp[k] = str({("x", 1): 0, ("y", 1): 0, ("x", 2): 12, ("y", 2): 0, ("x", 3): 0, ("y", 3): 12}[(k[1], i)])
        f2 = dict(failure)
        f2["inputs"] = inp
        r2 = replay_concrete(harness, f2, allowed_exceptions=exc)
        if r2.get("reproduced"):
            r2["detail"] = "overlapping geometry variant: " + r2["detail"]
            return r2
    return rep


def integerish_variants(inputs, tiny="1/5000000", max_variants=6):
    """Replay battery for defects that hide behind the TEXT of the numbers (the symbolic run sees
    placeholders, not digits): every input a small distinct integer, except one tiny value whose
    repr is in exponent form without a decimal point (2e-07)."""
    names = sorted(inputs)
    base = {}
    for i, n in enumerate(names):
        if n[:1] == "o":
            base[n] = "1"
        elif n[:1] in "whrs":
            base[n] = str(3 + i % 5)
        else:
            base[n] = str(1 + (i * 3) % 11)
    yield dict(base)
    k = 0
    for n in names:
        if n[:1] in "owhrs":
            continue
        v = dict(base)
        v[n] = tiny
        yield v
        k += 1
        if k >= max_variants:
            break


def collinear_variant(inputs, ndigits):
    """Replay geometry on which ROUNDING creates area: every point triple x<k>,y<k> is exactly
    collinear as authored and stops being collinear once rounded to `ndigits` (the abstract Skia
    area treats the area before and after rounding as unrelated numbers; this realises that)."""
    import re as _re

    s = 10.0 ** (-ndigits)
    pat = [(0.0, 0.0), (2.5 * s, 5.0 * s), (10.0, 20.0)]
    out = {k: v for k, v in inputs.items()}
    for k in inputs:
        m = _re.fullmatch(r"([xy])(\d+)", k)
        if not m:
            continue
        i = int(m.group(2)) - 1
        g = i // 3
        px, py = pat[i % 3]
        out[k] = repr((px if m.group(1) == "x" else py) + g)
    return out
