"""C09 - rewriting shapes and path data never changes the curve they describe.

Layer (a) of DESIGN 2/C09: whole walks of the real SVGPath rewrites over every
command-letter sequence `M|m + k letters` (all 20 letters), every numeric
argument a z3 real; oracle = independent SVG path interpreter applied to input
and output.
"""
import fractions
import itertools

from sx import common, loader
from sx.dual import replay_concrete
from sx.spec import path_interp as PI

PROPERTY = "C09"
LETTERS = "MmLlHhVvCcSsQqTtAaZz"
SUB4 = "MmLlzCcSsQqTt"
FLAGS = [(0, 1), (1, 0), (0, 0), (1, 1)]
REWRITES = [
    "absolute",
    "relative",
    "absolute_moveto",
    "explicit_lines",
    "expand_shorthand",
    "as_cmd_seq",
    "arcs_to_cubics",
    "move",
    "subpaths",
    "round_floats",
    "round_multiple",
]
SNAP = fractions.Fraction(1, 10**9)

_MODS = None


def c09_mods():
    """own load: svg_types.arc_to_cubic is replaced by the interface-contract stub"""
    global _MODS
    if _MODS is None:
        _MODS = loader.load(fake_skia=True)
        _MODS.stubs.append(
            "svg_types.arc_to_cubic -> contract stub: nothing if start==end, (None,None,end) if rx*ry==0, "
            "else 1..2 cubics with fresh control points whose last end point is the arc end (geometry is C12)"
        )
    return _MODS


# ------------------------------------------------------------------ inputs
def build(h, seq, nflags):
    """-> (d, cmds) ; numbers are h.real inputs, arc flags enumerated"""
    parts, cmds = [], []
    k = 0
    for i, L in enumerate(seq):
        n = PI.ARITY[L.lower()]
        if L.lower() == "a":
            fl = h.pick(FLAGS[:nflags], f"flags{i}")
            vals = [h.real(f"n{k}"), h.real(f"n{k+1}"), h.real(f"n{k+2}"), fl[0], fl[1], h.real(f"n{k+3}"), h.real(f"n{k+4}")]
            k += 5
        else:
            vals = [h.real(f"n{k+j}") for j in range(n)]
            k += n
        cmds.append((L, tuple(vals)))
        if h.symbolic:
            toks = [str(v) for v in vals]
        else:
            toks = [repr(v) if isinstance(v, float) else str(v) for v in vals]
        parts.append(L + " ".join(toks))
    return " ".join(parts), cmds


def parsed(h, path):
    return [(c, tuple(a)) for c, a in path]


# ------------------------------------------------------------------ oracle
def same_curve(h, a, b, tol, label):
    """segment lists a (expected) and b (actual) describe the same curve"""
    if len(a) != len(b) or any(x[0] != y[0] for x, y in zip(a, b)):
        return h.check(False, label + ".structure", detail=("".join(x[0] for x in a), "".join(y[0] for y in b)))
    conds = []
    fars = []
    gap = tol + fractions.Fraction(1, 1000)
    for x, y in zip(a, b):
        for p, q in zip(PI.seg_points(x), PI.seg_points(y)):
            fars.append(h.far(p[0], q[0], gap))
            fars.append(h.far(p[1], q[1], gap))
            if tol == 0:
                conds.append(h.eq(p[0], q[0]))
                conds.append(h.eq(p[1], q[1]))
            else:
                conds.append(h.close(p[0], q[0], tol))
                conds.append(h.close(p[1], q[1], tol))
        if x[0] == "A":
            for u, v in zip(x[2][:3], y[2][:3]):
                conds.append(h.eq(u, v))
            if tuple(x[2][3:]) != tuple(y[2][3:]):
                return h.check(False, label + ".arcflags")
    if not conds:
        return h.check(True, label)
    return h.check(h.and_(*conds), label, robust=h.or_(*fars) if h.symbolic else None)


class ArcRecorder:
    """wraps arc_to_cubic (stub or real) and records calls"""

    def __init__(self, fn):
        self.fn = fn
        self.calls = []

    def __call__(self, start, rx, ry, rot, large, sweep, end):
        res = list(self.fn(start, rx, ry, rot, large, sweep, end))
        self.calls.append(((tuple(start), rx, ry, rot, large, sweep, tuple(end)), res))
        return iter(res)


def make_stub(h):
    ctx = h.ctx
    import z3
    from sx.values import SymReal

    def stub(start, rx, ry, rot, large, sweep, end):
        Point = h.m.geometric_types.Point
        s, e = Point(*start), Point(*end)
        if h.is_true(h.and_(h.eq(s[0], e[0]), h.eq(s[1], e[1]))):
            return
        if h.is_true(h.or_(h.eq(rx, 0), h.eq(ry, 0))):
            yield None, None, e
            return
        n = 1 + h.choose(2, f"arcsegs{len(ctx.div_cache)}_{ctx.fresh_n}")
        for i in range(n):
            c1 = Point(SymReal(ctx.fresh("ac")), SymReal(ctx.fresh("ac")))
            c2 = Point(SymReal(ctx.fresh("ac")), SymReal(ctx.fresh("ac")))
            if i == n - 1:
                yield c1, c2, e
            else:
                yield c1, c2, Point(SymReal(ctx.fresh("ac")), SymReal(ctx.fresh("ac")))

    return stub


def expand_arcs(h, segs, rec, label):
    """replace each A segment by what (recorded) arc_to_cubic returned for the
    spec-absolute arguments; checks that those arguments were the right ones"""
    out = []
    calls = list(rec.calls)
    for s in segs:
        if s[0] != "A":
            out.append(s)
            continue
        if not calls:
            h.check(False, label + ".arc_not_converted")
            return None
        (a_start, rx, ry, rot, large, sweep, a_end), res = calls.pop(0)
        p0, (srx, sry, srot, sl, ss), p1 = s[1], s[2], s[3]
        ok = h.and_(
            h.close(a_start[0], p0[0], SNAP * 8), h.close(a_start[1], p0[1], SNAP * 8),
            h.close(a_end[0], p1[0], SNAP * 8), h.close(a_end[1], p1[1], SNAP * 8),
            h.eq(rx, srx), h.eq(ry, sry), h.eq(rot, srot),
        )
        h.check(ok, label + ".arc_args")
        if (large, sweep) != (sl, ss):
            h.check(False, label + ".arc_flags")
        cur = p0
        for c1, c2, e in res:
            if c1 is None:
                out.append(("L", cur, tuple(e)))
            else:
                out.append(("C", cur, tuple(c1), tuple(c2), tuple(e)))
            cur = tuple(e)
    return out


def split_subpaths(segs):
    """[(start point, [segments])] per SVG subpath; a subpath begun implicitly
    after a closepath starts at the closed subpath's initial point"""
    out = []
    open_ = False
    last_start = (0, 0)
    for sgm in segs:
        if sgm[0] == "M":
            out.append((sgm[1], []))
            last_start = sgm[1]
            open_ = True
            continue
        if not open_:
            out.append((last_start, []))
            open_ = True
        out[-1][1].append(sgm)
        if sgm[0] == "Z":
            last_start = sgm[2]
            open_ = False
    return out


def letters_ok(h, cmds, pred, label):
    bad = [c for c, _ in cmds if not pred(c)]
    return h.check(not bad, label, detail="".join(c for c, _ in cmds))


# ------------------------------------------------------------------ harness
def make_harness(seq, rewrite, nflags=2):
    seq = list(seq)

    def harness(h):
        T = h.m.svg_types
        d, cmds = build(h, seq, nflags)
        ncmd = len(cmds)
        tol = SNAP * (ncmd + 1)
        path = T.SVGPath(d=d)
        # the implementation treats a leading 'm' as 'M' (spec: same thing)
        spec_in = PI.interp(cmds)
        rec = None
        if rewrite in ("as_cmd_seq", "arcs_to_cubics"):
            real_fn = T.arc_to_cubic
            rec = ArcRecorder(make_stub(h) if h.symbolic else real_fn)
            T.arc_to_cubic = rec
        try:
            obs = run_rewrite(h, T, path, cmds, spec_in, rewrite, tol, rec)
        finally:
            if rec is not None:
                T.arc_to_cubic = real_fn
        return obs

    return harness


def flat(cmds):
    return [[c, list(a)] for c, a in cmds]


def run_rewrite(h, T, path, cmds, spec_in, rewrite, tol, rec):
    if rewrite == "absolute":
        out = parsed(h, path.absolute())
        letters_ok(h, out, lambda c: c.isupper(), "absolute.no_lowercase")
        same_curve(h, spec_in, PI.interp(out), tol, "absolute.same_curve")
        return flat(out)
    if rewrite == "relative":
        out = parsed(h, path.relative())
        letters_ok(h, out[1:], lambda c: c.islower(), "relative.all_relative")
        h.check(out[0][0] == "M", "relative.first_is_M")
        same_curve(h, spec_in, PI.interp(out), tol, "relative.same_curve")
        return flat(out)
    if rewrite == "absolute_moveto":
        out = parsed(h, path.absolute_moveto())
        letters_ok(h, out, lambda c: c != "m", "absolute_moveto.no_m")
        same_curve(h, spec_in, PI.interp(out), tol, "absolute_moveto.same_curve")
        return flat(out)
    if rewrite == "explicit_lines":
        out = parsed(h, path.explicit_lines())
        letters_ok(h, out, lambda c: c not in "HhVv", "explicit_lines.no_HV")
        same_curve(h, spec_in, PI.interp(out), 0, "explicit_lines.same_curve")
        return flat(out)
    if rewrite == "expand_shorthand":
        out = parsed(h, path.expand_shorthand())
        letters_ok(h, out, lambda c: c not in "SsTt", "expand_shorthand.no_ST")
        same_curve(h, spec_in, PI.interp(out), 0, "expand_shorthand.same_curve")
        return flat(out)
    if rewrite == "arcs_to_cubics":
        out = parsed(h, path.arcs_to_cubics())
        letters_ok(h, out, lambda c: c not in "Aa", "arcs_to_cubics.no_A")
        exp = expand_arcs(h, spec_in, rec, "arcs_to_cubics")
        if exp is not None:
            same_curve(h, exp, PI.interp(out), 0, "arcs_to_cubics.same_curve")
        return flat(out) if not rec.calls else [len(rec.calls)]
    if rewrite == "as_cmd_seq":
        out = parsed(h, path.as_cmd_seq())
        letters_ok(h, out, lambda c: c in "MLCQZ", "as_cmd_seq.only_MLCQZ")
        exp = expand_arcs(h, spec_in, rec, "as_cmd_seq")
        if exp is not None:
            same_curve(h, exp, PI.interp(out), tol, "as_cmd_seq.same_curve")
        return flat(out) if not rec.calls else [len(rec.calls)]
    if rewrite == "move":
        dx, dy = h.real("dx"), h.real("dy")
        out = parsed(h, path.move(dx, dy))

        def sh(p):
            return (p[0] + dx, p[1] + dy)

        exp = []
        for s in spec_in:
            if s[0] == "A":
                exp.append(("A", sh(s[1]), s[2], sh(s[3])))
            else:
                exp.append((s[0],) + tuple(sh(p) for p in s[1:]))
        same_curve(h, exp, PI.interp(out), 0, "move.same_curve_shifted")
        h.check([c for c, _ in out] == [c if i else "M" for i, (c, _) in enumerate(cmds)], "move.letters_unchanged")
        return flat(out)
    if rewrite == "subpaths":
        pieces = path.subpaths()
        allsegs = []
        starts_ok = True
        for piece in pieces:
            pc = parsed(h, T.SVGPath(d=piece))
            if not pc or pc[0][0] != "M":
                starts_ok = False
            allsegs.append(pc)
        # each piece is an independent path: interpreting the pieces one by one
        # must give the original subpaths (same start point, same segments)
        h.check(starts_ok, "subpaths.each_starts_with_M", detail=list(pieces) if not h.symbolic else None)
        want = split_subpaths(spec_in)
        got = []
        for pc in allsegs:
            got.extend(split_subpaths(PI.interp(pc)))
        if not h.check(len(got) == len(want) and len(pieces) == len(want), "subpaths.partition", detail=(len(want), len(got), len(pieces))):
            return [len(pieces)]
        a, b = [], []
        for (ws, wsegs), (gs, gsegs) in zip(want, got):
            a.append(("M", ws))
            a.extend(wsegs)
            b.append(("M", gs))
            b.extend(gsegs)
        same_curve(h, a, b, tol, "subpaths.same_curve")
        return [len(pieces)]
    if rewrite == "round_floats":
        n = h.pick([0, 3], "ndigits")
        out = parsed(h, path.round_floats(n))
        half = fractions.Fraction(1, 2 * 10**n)
        ok = [c for c, _ in out] == [c for c, _ in cmds] and all(len(a) == len(b) for (_, a), (_, b) in zip(out, cmds))
        h.check(ok, "round_floats.structure")
        if ok:
            conds = [h.close(x, y, half) for (_, a), (_, b) in zip(out, cmds) for x, y in zip(a, b)]
            h.check(h.and_(*conds) if conds else True, "round_floats.half_ulp")
        return flat(out)
    if rewrite == "round_multiple":
        mult = h.real("mult")
        h.assume(mult > 0)
        try:
            out = parsed(h, path.round_multiple(mult))
        except ValueError as e:
            # arc flags are rounded like coordinates and no longer parse
            h.check(False, "round_multiple.reparses", detail=str(e) if not h.symbolic else None)
            return ["ValueError"]
        ok = [c for c, _ in out] == [c for c, _ in cmds] and all(len(a) == len(b) for (_, a), (_, b) in zip(out, cmds))
        h.check(ok, "round_multiple.structure")
        if ok:
            conds = [h.close(x, y, mult * fractions.Fraction(1, 2) if h.symbolic else mult / 2) for (_, a), (_, b) in zip(out, cmds) for x, y in zip(a, b)]
            h.check(h.and_(*conds) if conds else True, "round_multiple.half_step")
        return flat(out)
    raise KeyError(rewrite)


# ------------------------------------------------------------------ shapes
def make_shape_harness(kind):
    def harness(h):
        T = h.m.svg_types
        if kind == "line":
            v = [h.real(n) for n in ("x1", "y1", "x2", "y2")]
            out = parsed(h, T.SVGLine(x1=v[0], y1=v[1], x2=v[2], y2=v[3]).as_path())
            exp = [("M", (v[0], v[1])), ("L", (v[0], v[1]), (v[2], v[3]))]
            same_curve(h, exp, PI.interp(out), 0, "line.same_curve")
            return flat(out)
        if kind in ("polyline", "polygon"):
            n = 2 + h.choose(2, "npts")
            pts = [(h.real(f"x{i}"), h.real(f"y{i}")) for i in range(n)]
            sep = h.pick([",", " "], "sep")
            s = " ".join(f"{_tok(h, x)}{sep}{_tok(h, y)}" for x, y in pts)
            cls = T.SVGPolyline if kind == "polyline" else T.SVGPolygon
            out = parsed(h, cls(points=s).as_path())
            exp = [("M", pts[0])] + [("L", pts[i], pts[i + 1]) for i in range(n - 1)]
            if kind == "polygon":
                exp.append(("Z", pts[-1], pts[0]))
            same_curve(h, exp, PI.interp(out), 0, kind + ".same_curve")
            return flat(out)
        if kind in ("circle", "ellipse"):
            cx, cy = h.real("cx"), h.real("cy")
            if kind == "circle":
                r = h.real("r")
                h.assume(r >= 0)
                rx = ry = r
                out = parsed(h, T.SVGCircle(r=r, cx=cx, cy=cy).as_path())
            else:
                rx, ry = h.real("rx"), h.real("ry")
                h.assume(rx >= 0)
                h.assume(ry >= 0)
                out = parsed(h, T.SVGEllipse(rx=rx, ry=ry, cx=cx, cy=cy).as_path())
            segs = PI.interp(out)
            # closed curve through (cx+rx,cy) and (cx-rx,cy) made of two half
            # ellipses with the given radii, rotation 0, same sweep direction
            kinds = "".join(s[0] for s in segs)
            if not h.check(kinds == "MAAZ", kind + ".structure", detail=kinds):
                return flat(out)
            E, W = (cx + rx, cy), (cx - rx, cy)
            conds = [
                h.eq(segs[0][1][0], E[0]), h.eq(segs[0][1][1], E[1]),
                h.eq(segs[1][3][0], W[0]), h.eq(segs[1][3][1], W[1]),
                h.eq(segs[2][3][0], E[0]), h.eq(segs[2][3][1], E[1]),
            ]
            for a in (segs[1], segs[2]):
                conds += [h.eq(a[2][0], rx), h.eq(a[2][1], ry), h.eq(a[2][2], 0)]
            h.check(h.and_(*conds), kind + ".same_curve")
            h.check(segs[1][2][4] == segs[2][2][4], kind + ".same_sweep")
            return flat(out)
        if kind == "rect":
            x, y, w, hh = (h.real(n) for n in ("x", "y", "w", "h"))
            h.assume(w >= 0)
            h.assume(hh >= 0)
            mode = h.pick(["none", "rx", "ry", "both"], "radii")
            kw = {}
            rx = ry = None
            if mode != "none":
                # SVG: a zero width or height disables rendering; with radii the
                # clamped-to-zero corner case is outside the claim
                h.assume(w > 0)
                h.assume(hh > 0)
            if mode in ("rx", "both"):
                rx = h.real("rx")
                h.assume(rx >= 0)
                kw["rx"] = rx
            if mode in ("ry", "both"):
                ry = h.real("ry")
                h.assume(ry >= 0)
                kw["ry"] = ry
            out = parsed(h, T.SVGRect(x=x, y=y, width=w, height=hh, **kw).as_path())
            # SVG 1.1 9.2: missing/auto radius takes the other's value; clamp to half size
            if mode == "none":
                erx = ery = 0
            elif mode == "rx":
                erx = ery = rx
            elif mode == "ry":
                erx = ery = ry
            else:
                erx, ery = rx, ry
                # the implementation treats an explicit 0 like 'auto' (copies the
                # other radius); SVG says rx=0 => square corners. Restrict to the
                # common ground: both positive, or both zero.
                h.assume(h.or_(h.and_(h.lt(0, rx), h.lt(0, ry)), h.and_(h.eq(rx, 0), h.eq(ry, 0))))
            half_w = w * fractions.Fraction(1, 2) if h.symbolic else w / 2
            half_h = hh * fractions.Fraction(1, 2) if h.symbolic else hh / 2
            erx = _min(h, erx, half_w)
            ery = _min(h, ery, half_h)
            rounded = h.is_true(h.lt(0, erx))
            P = [
                (x + erx, y), (x + w - erx, y), (x + w, y + ery), (x + w, y + hh - ery),
                (x + w - erx, y + hh), (x + erx, y + hh), (x, y + hh - ery), (x, y + ery),
            ]
            exp = [("M", P[0]), ("L", P[0], P[1])]
            arc = (erx, ery, 0, 0, 1)
            if rounded:
                exp.append(("A", P[1], arc, P[2]))
            exp.append(("L", P[2] if rounded else P[1], P[3]))
            if rounded:
                exp.append(("A", P[3], arc, P[4]))
            exp.append(("L", P[4] if rounded else P[3], P[5]))
            if rounded:
                exp.append(("A", P[5], arc, P[6]))
            exp.append(("L", P[6] if rounded else P[5], P[7]))
            if rounded:
                exp.append(("A", P[7], arc, P[0]))
            exp.append(("Z", P[0] if rounded else P[7], P[0]))
            same_curve(h, exp, PI.interp(out), 0, "rect.same_curve")
            return flat(out)
        raise KeyError(kind)

    return harness


def _tok(h, v):
    return str(v) if h.symbolic else repr(float(v))


def _min(h, a, b):
    if h.symbolic:
        from sx.values import sym_min

        return sym_min(a, b)
    return min(a, b)


def h_lemma_merge(h):
    """Point/Vector.almost_equals (source function, forked) decides exactly
    |dx|<=tol and |dy|<=tol; the merged evaluation used by the loader agrees"""
    G = h.m.geometric_types
    a = (h.real("ax"), h.real("ay"))
    b = (h.real("bx"), h.real("by"))
    tol = h.real("tol")
    out = []
    for cls in (G.Point, G.Vector):
        p, q = cls(*a), cls(*b)
        orig = getattr(cls, "_orig_almost_equals", cls.almost_equals)
        r1 = bool(orig(p, q, tol))  # forks like the source
        spec = h.and_(h.close(a[0], b[0], tol), h.close(a[1], b[1], tol))
        h.check(spec if r1 else h.not_(spec), f"almost_equals.{cls.__name__}.is_componentwise_within_tol")
        if h.symbolic:
            r2 = bool(cls.almost_equals(p, q, tol))  # merged: decided under the same path condition
            h.check(r1 == r2, f"lemma.{cls.__name__}.almost_equals")
            e1 = bool(h.and_(h.eq(a[0], b[0]), h.eq(a[1], b[1])))
            e2 = bool(p == q)
            n2 = bool(p != q)
            h.check(e1 == e2 and e1 != n2, f"lemma.{cls.__name__}.eq_ne")
        out += [r1]
    return out


SHAPES = ["line", "polyline", "polygon", "circle", "ellipse", "rect"]


# ------------------------------------------------------------------ driver
SECOND = "lCsAz"
THIRD = "lCsA"


def cases(tier, seed):
    cs = [{"kind": "shape", "shape": s} for s in SHAPES]
    cs.append({"kind": "lemma_merge"})
    kmax = 2 if tier == "quick" else 3
    for first in "Mm":
        for k in range(0, kmax + 1):
            if first == "m" and k > 2:
                continue
            for rest in itertools.product(LETTERS, repeat=k):
                if k == 3 and (rest[1] not in SECOND or rest[2] not in THIRD):
                    continue  # 20 x 5 x 4 walks (the full 20^3 takes > 1 h)
                cs.append({"kind": "walk", "seq": first + "".join(rest)})
    if tier == "quick":
        # targeted k=3: (second moveto | line) then closepath then every letter
        # ("z followed by drawing commands", "repeated moveto" of the property text)
        for x in "mMlLq":
            for y in LETTERS:
                cs.append({"kind": "walk", "seq": "M" + x + "z" + y, "sub": True})
    if tier != "quick":
        for rest in itertools.product(SUB4, "lzQ", "Cs", "z"):
            cs.append({"kind": "walk", "seq": "M" + "".join(rest), "sub": True})
    return cs


def case_cost(case):
    if case["kind"] != "walk":
        return 50
    s = case["seq"]
    return len(s) * 3 + sum(4 for c in s if c in "Aa") + sum(2 for c in s if c in "CcSs")


def rewrites_for(case, tier):
    if case.get("sub"):
        return ["absolute", "relative", "explicit_lines", "expand_shorthand", "as_cmd_seq", "subpaths"]
    return REWRITES


def run_case(case, tier):
    m = c09_mods()
    tmo = 10000 if tier == "quick" else 30000
    if case["kind"] == "lemma_merge":
        return common.run_symbolic(h_lemma_merge, mods_=m, timeout_ms=tmo, validate_every=3)
    if case["kind"] == "shape":
        return common.run_symbolic(make_shape_harness(case["shape"]), mods_=m, timeout_ms=tmo, validate_every=10)
    res = []
    nflags = 2 if tier == "quick" else 4
    if len(case["seq"]) > 3:
        nflags = 2
    for rw in rewrites_for(case, tier):
        if rw == "arcs_to_cubics" and not any(c in "Aa" for c in case["seq"]):
            continue
        if rw == "round_multiple" and any(c in "Aa" for c in case["seq"]):
            continue  # arc flags/radii under round_multiple: outside the claim (see DESIGN 5)
        r = common.run_symbolic(
            make_harness(case["seq"], rw, nflags),
            mods_=m,
            timeout_ms=tmo,
            validate_every=40,
            trace_first=1,
            max_paths=30000,
        )
        for f in r["failures"]:
            f["rewrite"] = rw
        res.append(r)
    return common.merge(res)


def finding_key(case, failure):
    if case["kind"] == "lemma_merge":
        return {"kind": "lemma_merge", "label": failure["label"]}
    if case["kind"] == "shape":
        return {"kind": "shape", "shape": case["shape"], "label": failure["label"]}
    seq = case["seq"]
    lab = failure["label"]
    key = {"kind": "walk", "label": lab}
    # normal form of the failing site: the shortest letter context
    key["context"] = _context(seq, lab)
    return key


def _context(seq, lab):
    """normalise: for shorthand failures the (prev family, shorthand) pair"""
    if lab.startswith("expand_shorthand") or lab.startswith("as_cmd_seq"):
        for i in range(1, len(seq)):
            a, b = seq[i - 1].upper(), seq[i].upper()
            if b == "T" and a in "CS":
                return "T-after-cubic"
            if b == "S" and a in "QT":
                return "S-after-quadratic"
    if lab.startswith("arcs_to_cubics"):
        for i in range(1, len(seq)):
            if seq[i - 1] in "Aa" and seq[i] in "Ss":
                return "S-after-arc"
    if lab.startswith("subpaths"):
        for i in range(1, len(seq)):
            if seq[i - 1] in "Zz" and seq[i] not in "MmZz":
                return "draw-after-z"
            if seq[i - 1] in "Zz" and seq[i] in "Zz":
                return "z-after-z"
    return seq


def replay(case, failure):
    if case["kind"] == "lemma_merge":
        if failure["label"].startswith("lemma."):
            return {"reproduced": False, "detail": "lemma about the loader's own stub: harness error, not a repo violation"}
        return replay_concrete(h_lemma_merge, failure)
    if case["kind"] == "shape":
        return replay_concrete(make_shape_harness(case["shape"]), failure)
    rw = failure.get("rewrite") or failure["label"].split(".")[0]
    return replay_concrete(make_harness(case["seq"], rw, 4), failure)


def describe(tier):
    kmax = 2 if tier == "quick" else 3
    return {
        "explanation": (
            "Bounded symbolic execution of the real svg_types.py rewrites (walk, _rewrite_path incl. the 1e-9 snap, absolute, "
            "relative, absolute_moveto, explicit_lines, expand_shorthand, arcs_to_cubics bookkeeping, as_cmd_seq, move, subpaths, "
            "round_floats, round_multiple, the basic shapes' as_path) and of parse_svg_path/path_segment on placeholder-tokenised "
            "data; every numeric argument is a z3 real; the oracle is an independent SVG path interpreter applied to input and output."
        ),
        "bounds": {
            "letters_after_initial_moveto": f"all 20^k sequences for k<=2, initial M and m" + ("; plus M{m,M,l,L,q}z{any letter}" if tier == "quick" else "; k=3 after M: 20 x (l C s A z) x (l C s A); k=4 over MmLlzCcSsQqTt x (l z Q) x (C s) x z"),
            "arc_flags": "2 of 4 (large,sweep) pairs per arc (quick) / all 4 (thorough, k<=2)",
            "numbers": "all reals (unbounded); multiple_of > 0; shape sizes >= 0",
            "tolerance": "point equality within 1e-9*(#commands+1) where _rewrite_path may snap; exact elsewhere",
        },
        "outside": [
            "IEEE rounding of the additions",
            "correctness of builtin round (contract only)",
            "geometry of arc->cubic (C12): arc_to_cubic is an interface-contract stub here",
            "lexing/printing of numbers (C10)",
            "rect with exactly one of rx/ry explicitly 0 (implementation treats 0 as auto); rounded rect of zero width/height (not rendered)",
            "sequences longer than the bound",
            "round_multiple on paths with arcs (flags and radii are rounded like coordinates: observed, reported in DESIGN 5, not part of the C09 statement)",
        ],
        "stubs": c09_mods().stubs,
        "assumptions": ["floats modelled as exact reals", "round contract |R(x)-x|<=half ulp"],
    }
