"""C02 - flattening groups, transforms, use and nested svg preserves the rendering."""
from checks.pipeline_common import replay_render, doc, make_render_harness, run_template_case, nondegenerate, PIPE_OUTSIDE
from sx import common
from sx.dual import replay_concrete
from sx import fake_pathops as FP

PROPERTY = "C02"

RECT = '<rect x="{x1}" y="{y1}" width="{w1}" height="{h1}" fill="red"/>'
RECT2 = '<rect x="{x2}" y="{y2}" width="{w2}" height="{h2}" fill="blue"/>'
POLY = '<polygon points="{px1},{py1} {px2},{py2} {px3},{py3}" fill="green"/>'
RELPATH = '<path d="M{qx},{qy} l{qa},{qb} h{qc} v{qd} c{q1},{q2} {q3},{q4} {q5},{q6} s{q7},{q8} {q9},{q10} z" fill="orange"/>'
QPATH = '<path d="m{qx},{qy} q{q1},{q2} {q3},{q4} t{q5},{q6} L{q7},{q8} Z" fill="teal"/>'

T = {}
# --- transforms on shapes and groups -------------------------------------------
T["g_translate"] = doc(f'<g transform="translate({{tx}} {{ty}})">{RECT}</g>')
T["g_translate1"] = doc(f'<g transform="translate({{tx}})">{RECT}{POLY}</g>')
T["g_scale_rotate"] = doc(f'<g transform="scale({{s1}}) rotate({{a1}})">{POLY}</g>')
T["g_scale2_skew"] = doc(f'<g transform="scale({{s1}},{{s2}}) skewX({{a1}})">{RECT}</g>')
T["shape_matrix"] = doc('<rect x="{x1}" y="{y1}" width="{w1}" height="{h1}" transform="matrix({ma} {mb} {mc} {md} {me} {mf})"/>')
T["g_g_shape"] = doc(f'<g transform="translate({{tx}},{{ty}})"><g transform="scale({{s1}} {{s2}})"><polygon points="{{px1}},{{py1}} {{px2}},{{py2}} {{px3}},{{py3}}" transform="rotate({{a1}} {{cx}} {{cy}})"/></g></g>')
T["g_matrix_child_matrix"] = doc(f'<g transform="matrix({{ma}} {{mb}} {{mc}} {{md}} {{me}} {{mf}})"><rect x="{{x1}}" y="{{y1}}" width="{{w1}}" height="{{h1}}" transform="matrix({{na}} {{nb}} {{nc}} {{nd}} {{ne}} {{nf}})"/></g>')
T["relpath_under_transform"] = doc(f'<g transform="rotate({{a1}}) translate({{tx}} {{ty}})">{RELPATH}</g>')
T["qpath_skewy"] = doc(f'<g transform="skewY({{a1}})">{QPATH}</g>')
T["two_siblings_order"] = doc(f'<g transform="translate({{tx}} {{ty}})">{RECT}{RECT2}</g>{POLY}')
T["three_levels"] = doc(f'<g transform="translate({{tx}} {{ty}})"><g transform="rotate({{a1}})"><g transform="scale({{s1}})">{RECT}</g>{POLY}</g></g>')
T["polyline_line"] = doc('<g transform="scale({s1} {s2})"><polyline points="{px1},{py1} {px2},{py2} {px3},{py3}" fill="red"/><line x1="{x1}" y1="{y1}" x2="{x2}" y2="{y2}" fill="blue"/></g>')
# --- use ---------------------------------------------------------------------
T["use_xy"] = doc(f'<defs><rect id="r" x="{{x1}}" y="{{y1}}" width="{{w1}}" height="{{h1}}"/></defs><use xlink:href="#r" x="{{ux}}" y="{{uy}}" fill="red"/>')
T["use_xy_transform"] = doc(f'<defs><rect id="r" x="{{x1}}" y="{{y1}}" width="{{w1}}" height="{{h1}}"/></defs><use xlink:href="#r" x="{{ux}}" y="{{uy}}" transform="scale({{s1}} {{s2}})"/>')
T["use_twice"] = doc(f'<defs><polygon id="p" points="{{px1}},{{py1}} {{px2}},{{py2}} {{px3}},{{py3}}"/></defs><use xlink:href="#p" x="{{ux}}" fill="red"/><use xlink:href="#p" y="{{uy}}" transform="rotate({{a1}})" fill="blue"/>')
T["use_group"] = doc(f'<defs><g id="grp" transform="translate({{tx}} {{ty}})">{RECT}{POLY}</g></defs><use xlink:href="#grp" x="{{ux}}" y="{{uy}}"/>')
T["use_in_group"] = doc(f'<defs><rect id="r" x="{{x1}}" y="{{y1}}" width="{{w1}}" height="{{h1}}"/></defs><g transform="scale({{s1}})"><use xlink:href="#r" x="{{ux}}" y="{{uy}}"/>{POLY}</g>')
T["use_target_transformed"] = doc(f'<defs><rect id="r" x="{{x1}}" y="{{y1}}" width="{{w1}}" height="{{h1}}" transform="rotate({{a1}})"/></defs><use xlink:href="#r" x="{{ux}}" y="{{uy}}" transform="translate({{tx}} {{ty}})"/>')
T["use_visible_target"] = doc(f'<rect id="r" x="{{x1}}" y="{{y1}}" width="{{w1}}" height="{{h1}}" fill="red"/><use xlink:href="#r" x="{{ux}}" y="{{uy}}"/>')
# --- nested svg ------------------------------------------------------------------
for par in ("none", "xMinYMin", "xMidYMid", "xMaxYMax slice", "xMinYMax meet", "xMidYMin slice"):
    key = "nested_" + par.replace(" ", "_")
    T[key] = doc(f'<svg x="{{vx}}" y="{{vy}}" width="{{w3}}" height="{{h3}}" viewBox="{{bx}} {{by}} {{w4}} {{h4}}" preserveAspectRatio="{par}" overflow="visible">{RECT}</svg>')
T["nested_default_par_hidden"] = doc(f'<svg x="{{vx}}" y="{{vy}}" width="{{w3}}" height="{{h3}}" viewBox="{{bx}} {{by}} {{w4}} {{h4}}">{RECT}</svg>')
T["nested_no_viewbox"] = doc(f'<svg x="{{vx}}" y="{{vy}}" width="{{w3}}" height="{{h3}}" overflow="visible">{RECT}{POLY}</svg>')
T["nested_no_viewbox_hidden"] = doc(f'<svg x="{{vx}}" y="{{vy}}" width="{{w3}}" height="{{h3}}">{RECT}</svg>')
T["nested_in_group"] = doc(f'<g transform="translate({{tx}} {{ty}})"><svg x="{{vx}}" y="{{vy}}" width="{{w3}}" height="{{h3}}" viewBox="{{bx}} {{by}} {{w4}} {{h4}}" overflow="visible">{RECT}</svg></g>')
T["nested_nested"] = doc(f'<svg x="{{vx}}" y="{{vy}}" width="{{w3}}" height="{{h3}}" viewBox="0 0 {{w4}} {{h4}}" overflow="visible"><svg x="{{ux}}" y="{{uy}}" overflow="visible">{RECT}</svg></svg>')
T["nested_nested_inner_viewbox_nosize"] = doc(f'<svg x="{{vx}}" y="{{vy}}" width="{{w3}}" height="{{h3}}" viewBox="0 0 {{w4}} {{h4}}" overflow="visible"><svg viewBox="{{bx}} {{by}} {{w5}} {{h5}}" preserveAspectRatio="none" overflow="visible">{RECT}</svg></svg>')
T["nested_nested_inner_nosize_hidden"] = doc(f'<svg x="{{vx}}" y="{{vy}}" width="{{w3}}" height="{{h3}}" viewBox="0 0 {{w4}} {{h4}}" overflow="visible"><svg x="{{ux}}" y="{{uy}}">{RECT}</svg></svg>')
# --- display none -------------------------------------------------------------------
T["display_none_group"] = doc(f'<g display="none" transform="translate({{tx}})">{RECT}</g><g transform="translate({{tx}} {{ty}})">{POLY}</g>')
T["display_none_style"] = doc(f'<g transform="scale({{s1}})"><rect x="{{x1}}" y="{{y1}}" width="{{w1}}" height="{{h1}}" style="display:none"/>{POLY}</g>')
T["defs_not_rendered"] = doc(f'<defs>{RECT}</defs><g transform="translate({{tx}} {{ty}})">{POLY}</g>')

THOROUGH = {}
THOROUGH["four_levels"] = doc(f'<g transform="translate({{tx}} {{ty}})"><g transform="rotate({{a1}})"><g transform="scale({{s1}} {{s2}})"><g transform="skewX({{a2}})">{RECT}</g>{POLY}</g>{RECT2}</g></g>')
THOROUGH["use_of_use"] = doc(f'<defs><rect id="r" x="{{x1}}" y="{{y1}}" width="{{w1}}" height="{{h1}}"/><use id="u" xlink:href="#r" x="{{ux}}" y="{{uy}}"/></defs><use xlink:href="#u" transform="scale({{s1}})" fill="red"/>')
THOROUGH["nested_use"] = doc(f'<defs><polygon id="p" points="{{px1}},{{py1}} {{px2}},{{py2}} {{px3}},{{py3}}"/></defs><svg x="{{vx}}" y="{{vy}}" width="{{w3}}" height="{{h3}}" viewBox="{{bx}} {{by}} {{w4}} {{h4}}" preserveAspectRatio="xMaxYMid slice"><use xlink:href="#p" x="{{ux}}" y="{{uy}}"/></svg>')
THOROUGH["matrix_chain"] = doc(f'<g transform="matrix({{ma}} {{mb}} {{mc}} {{md}} {{me}} {{mf}}) translate({{tx}} {{ty}})"><g transform="rotate({{a1}} {{cx}} {{cy}}) scale({{s1}})">{RELPATH}</g></g>')


def _assume(name):
    def f(h, vals):
        if all(k in vals for k in ("ma", "mb", "mc", "md")):
            nondegenerate(h, vals, ("ma", "mb", "mc", "md"))
        if all(k in vals for k in ("na", "nb", "nc", "nd")):
            nondegenerate(h, vals, ("na", "nb", "nc", "nd"))
    return f


def templates(tier):
    t = dict(T)
    if tier != "quick":
        t.update(THOROUGH)
    return t


def cases(tier, seed):
    return [{"template": k} for k in templates(tier)]


def harness_for(case):
    t = templates("thorough")[case["template"]]
    return make_render_harness(t, "render_equal", extra_assume=_assume(case["template"]))


def run_case(case, tier):
    return run_template_case(harness_for(case), tier)


def finding_key(case, failure):
    return {"template": case["template"], "label": failure["label"]}


def replay(case, failure):
    return replay_render(harness_for(case), failure)


def describe(tier):
    return {
        "explanation": (
            "The real SVG.topicosvg pipeline (fromstring, remove_*, apply_style_attributes, resolve_nested_svgs, shapes_to_paths, "
            "expand_shorthand, resolve_use, simplify, evenodd_to_nonzero_winding, normalize_opacity, absolute, round_floats, "
            "remove_empty_subpaths, remove_unpainted_shapes, checkpicosvg) is executed on template documents whose every number is a "
            "z3 real, under the abstract Skia.  An independent SVG rendering model computes the paint tree of source and output; "
            "leaves are identified by provable coordinate equality (CTM applied to the spec's own shape-to-path), and the composited "
            "colour/alpha at a symbolic sample point (coverage of each leaf a Boolean atom) must agree: one SMT validity query per path."
        ),
        "bounds": {"templates": sorted(templates(tier)), "numbers": "all transform/viewport/use/shape numbers real (sizes, scales > 0; matrices invertible)"},
        "outside": PIPE_OUTSIDE,
        "stubs": common.mods().stubs + FP.CONTRACT,
        "assumptions": FP.CONTRACT + ["floats as reals", "sin/cos/tan uninterpreted, shared with the oracle"],
    }
