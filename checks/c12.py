"""C12 - arc-to-cubic conversion tracks the true elliptical arc.

Four parts (DESIGN 2/C12):
 1. degenerate cases of arc_to_cubic (all arguments symbolic);
 2. segment count / end points / control-point formulas of _arc_to_cubic with an
    ARBITRARY centre parametrisation (theta1, theta_arc, centre);
 3. accuracy: the control points the real loop body yields for a unit-circle
    segment of angle D are rational functions of u=tan(D/4); the radial error of
    the cubic stays within 0.03% for every u up to tan((pi/2+.001)/4) and every
    curve parameter s in [0,1] (polynomial SMT query);
 4. end_to_center_parametrization / correct_out_of_range_radii: both end points
    lie on the unit circle about the computed centre, theta_arc has the sign the
    sweep flag selects, corrected radii fit the chord.
"""
import fractions
import math

import z3

from sx import common, loader
from sx import ctx as C
from sx.dual import replay_concrete, Abort
from sx.values import SymReal, term_of

PROPERTY = "C12"
F = fractions.Fraction
EPS_REL = F(3, 10000)
_MODS = None


def c12_mods():
    global _MODS
    if _MODS is None:
        _MODS = loader.load(fake_skia=True)
    return _MODS


# ------------------------------------------------------------------ part 1
def h_degenerate(h):
    A = h.m.arc_to_cubic
    s = (h.real("sx"), h.real("sy"))
    e = (h.real("ex"), h.real("ey"))
    rx, ry, rot = h.real("rx"), h.real("ry"), h.real("rot")
    large = h.choose(2, "large")
    sweep = h.choose(2, "sweep")
    marker = []
    orig = A._arc_to_cubic

    def fake(arc):
        marker.append(arc)
        yield ("P1", "P2", arc.end_point)

    A._arc_to_cubic = fake
    try:
        res = list(A.arc_to_cubic(s, rx, ry, rot, large, sweep, e))
    finally:
        A._arc_to_cubic = orig
    same = h.and_(h.eq(s[0], e[0]), h.eq(s[1], e[1]))
    flat = h.or_(h.eq(rx, 0), h.eq(ry, 0))
    if h.is_true(same):
        h.tag("coincident")
        h.check(res == [], "degenerate.coincident_endpoints_give_nothing", detail=len(res))
        return [0]
    if h.is_true(flat):
        h.tag("zero-radius")
        ok = len(res) == 1 and res[0][0] is None and res[0][1] is None
        h.check(ok, "degenerate.zero_radius_gives_one_line")
        if ok:
            h.check(h.and_(h.eq(res[0][2][0], e[0]), h.eq(res[0][2][1], e[1])), "degenerate.line_ends_at_end_point")
        return [1]
    h.tag("proper")
    ok = len(res) == 1 and res[0][0] == "P1" and len(marker) == 1
    h.check(ok, "degenerate.proper_arc_is_converted")
    if ok:
        a = marker[0]
        h.check(
            h.and_(h.eq(a.start_point[0], s[0]), h.eq(a.start_point[1], s[1]), h.eq(a.end_point[0], e[0]), h.eq(a.end_point[1], e[1]), h.eq(a.rx, rx), h.eq(a.ry, ry), h.eq(a.rotation, rot)),
            "degenerate.arguments_passed_through",
        )
        h.check((a.large, a.sweep) == (large, sweep), "degenerate.flags_passed_through")
    return [2]


# ------------------------------------------------------------------ part 2
def _trig(h):
    if h.symbolic:
        import sx.symmath as sm

        return sm.sin, sm.cos, sm.tan, sm.radians
    return math.sin, math.cos, math.tan, math.radians


def h_segments(h):
    A = h.m.arc_to_cubic
    G = h.m.geometric_types
    sin, cos, tan, radians = _trig(h)
    s = (h.real("sx"), h.real("sy"))
    e = (h.real("ex"), h.real("ey"))
    rx, ry, rot = h.real("rx"), h.real("ry"), h.real("rot")
    th1, tharc = h.real("theta1"), h.real("theta_arc")
    cx, cy = h.real("cx"), h.real("cy")
    two_pi = F(math.pi) * 2 if h.symbolic else 2 * math.pi
    h.assume(tharc <= two_pi)
    h.assume(tharc >= -two_pi)
    arc = A.EllipticalArc(G.Point(*s), rx, ry, rot, 0, 1, G.Point(*e))
    cls = A.EllipticalArc
    o1, o2 = cls.correct_out_of_range_radii, cls.end_to_center_parametrization
    cls.correct_out_of_range_radii = lambda self: self
    cls.end_to_center_parametrization = lambda self: A.CenterParametrization(th1, tharc, G.Point(cx, cy))
    try:
        res = list(A._arc_to_cubic(arc))
    finally:
        cls.correct_out_of_range_radii, cls.end_to_center_parametrization = o1, o2
    n = len(res)
    h.tag(f"n={n}")
    h.check(n <= 4, "segments.at_most_four")
    # exactly the float constant of the source: PI_OVER_TWO + 0.001
    quarter = F(0.5 * math.pi + 0.001) if h.symbolic else (0.5 * math.pi + 0.001)
    if n == 0:
        # no segment only for a zero sweep
        h.check(h.eq(tharc, 0), "segments.none_only_for_zero_sweep")
        return [0]
    # every segment spans at most pi/2 + .001
    step = h.abs(tharc) * F(1, n) if h.symbolic else abs(tharc) / n
    h.check(h.le(step, quarter), "segments.each_at_most_quarter_turn")
    # one segment fewer would exceed it (count is minimal)
    if n > 1:
        prev = h.abs(tharc) * F(1, n - 1) if h.symbolic else abs(tharc) / (n - 1)
        h.check(h.lt(quarter, prev), "segments.count_minimal")
    phi = radians(rot)
    cphi, sphi = cos(phi), sin(phi)

    def T(u, v):
        # centre + R(phi) . (rx*u, ry*v): the ellipse parametrisation (SVG impl. notes F.6.3)
        return (cx + cphi * (rx * u) - sphi * (ry * v), cy + sphi * (rx * u) + cphi * (ry * v))

    conds = []
    for i, (p1, p2, pe) in enumerate(res):
        ts = th1 + i * tharc / n
        te = th1 + (i + 1) * tharc / n
        # 4/3 is the float 1.3333333333333333 in the source
        t = F(4 / 3) * tan(F(1, 4) * (te - ts)) if h.symbolic else (4 / 3) * tan(0.25 * (te - ts))
        e1 = T(cos(ts) - t * sin(ts), sin(ts) + t * cos(ts))
        e2 = T(cos(te) + t * sin(te), sin(te) - t * cos(te))
        conds += [h.eq(p1[0], e1[0]), h.eq(p1[1], e1[1]), h.eq(p2[0], e2[0]), h.eq(p2[1], e2[1])]
        if i == n - 1:
            conds += [h.eq(pe[0], e[0]), h.eq(pe[1], e[1])]
        else:
            ee = T(cos(te), sin(te))
            conds += [h.eq(pe[0], ee[0]), h.eq(pe[1], ee[1])]
    h.check(h.and_(*conds), "segments.control_and_end_points_follow_the_standard_construction")
    return [n]


# ------------------------------------------------------------------ part 3
U_MAX = F(math.tan((math.pi / 2 + 0.001) / 4)) + F(1, 10**9)


def h_accuracy(h):
    """unit circle, one segment from angle 0 to D, u = tan(D/4)"""
    A = h.m.arc_to_cubic
    G = h.m.geometric_types
    u = h.real("u")
    s_ = h.real("s")
    h.assume(u >= -U_MAX if h.symbolic else u >= -float(U_MAX))
    h.assume(u <= U_MAX if h.symbolic else u <= float(U_MAX))
    h.assume(s_ >= 0)
    h.assume(s_ <= 1)
    if h.symbolic:
        ctx = h.ctx
        D = z3.Real("Delta")
        Dv = SymReal(D)
        den = (1 + u * u) * (1 + u * u)
        # double-angle identities (mathematical facts): with u = tan(D/4)
        cosD = SymReal(z3.Real("cosD"))
        sinD = SymReal(z3.Real("sinD"))
        ctx.axiom(term_of(cosD * den) == term_of((1 - u * u) * (1 - u * u) - 4 * u * u))
        ctx.axiom(term_of(sinD * den) == term_of(4 * u * (1 - u * u)))

        def match(x):
            t = z3.simplify(term_of(x))
            if z3.is_rational_value(t) or z3.is_int_value(t):
                return ("const", float(C.frac_of_model_value(t)))
            if t.eq(D):
                return ("D", None)
            if z3.simplify(t * 4).eq(D):
                return ("D/4", None)
            raise C.Inconclusive(f"accuracy harness: unexpected angle term {t}")

        def sin(x):
            k, v = match(x)
            if k == "const":
                return math.sin(v)
            if k == "D":
                return sinD
            raise C.Inconclusive("sin(D/4) not expected")

        def cos(x):
            k, v = match(x)
            if k == "const":
                return math.cos(v)
            if k == "D":
                return cosD
            raise C.Inconclusive("cos(D/4) not expected")

        def tan(x):
            k, v = match(x)
            if k == "const":
                return math.tan(v)
            if k == "D/4":
                return u
            raise C.Inconclusive("tan of unexpected angle")

        end = (cosD, sinD)
        theta = Dv
    else:
        theta = 4 * math.atan(u)
        sin, cos, tan = math.sin, math.cos, math.tan
        end = (math.cos(theta), math.sin(theta))
    arc = A.EllipticalArc(G.Point(1, 0), 1, 1, 0, 0, 1, G.Point(*end))
    cls = A.EllipticalArc
    o1, o2 = cls.correct_out_of_range_radii, cls.end_to_center_parametrization
    cls.correct_out_of_range_radii = lambda self: self
    cls.end_to_center_parametrization = lambda self: A.CenterParametrization(0, theta, G.Point(0, 0))
    saved = (A.sin, A.cos, A.tan, A.ceil)
    A.sin, A.cos, A.tan = sin, cos, tan
    if h.symbolic:
        # |D| <= pi/2+.001 by the bound on u: exactly one segment (count is part 2's subject)
        A.ceil = lambda x: 1
    try:
        res = list(A._arc_to_cubic(arc))
    finally:
        cls.correct_out_of_range_radii, cls.end_to_center_parametrization = o1, o2
        A.sin, A.cos, A.tan, A.ceil = saved
    if not h.symbolic and abs(theta) < 1e-12:
        return [0]
    if not h.check(len(res) == 1, "accuracy.one_segment", detail=len(res)):
        return [len(res)]
    p1, p2, pe = res[0]
    p0 = (1, 0)
    b0 = (1 - s_) * (1 - s_) * (1 - s_)
    b1 = 3 * (1 - s_) * (1 - s_) * s_
    b2 = 3 * (1 - s_) * s_ * s_
    b3 = s_ * s_ * s_
    bx = b0 * p0[0] + b1 * p1[0] + b2 * p2[0] + b3 * pe[0]
    by = b0 * p0[1] + b1 * p1[1] + b2 * p2[1] + b3 * pe[1]
    lo = (1 - EPS_REL) * (1 - EPS_REL)
    hi = (1 + EPS_REL) * (1 + EPS_REL)
    if not h.symbolic:
        r2 = bx * bx + by * by
        h.check(float(lo) <= r2 <= float(hi), "accuracy.radial_error_within_0.03_percent", detail=(r2, u, s_))
        return []
    # clear denominators by hand: B is linear in cosD, sinD; multiply by den=(1+u^2)^2 and
    # substitute den*cosD, den*sinD by their polynomials in u (DESIGN probe P7)
    dbx = _times_den(h, bx, u, cosD, sinD)
    dby = _times_den(h, by, u, cosD, sinD)
    if dbx is None or dby is None:
        h.check(False, "accuracy.control_points_not_linear_in_cos_sin")
        return []
    den2 = den * den
    r2d = dbx * dbx + dby * dby
    margin = F(1, 10**9)
    h.check(
        h.and_(h.le((lo + margin) * den2, r2d), h.le(r2d, (hi - margin) * den2)),
        "accuracy.radial_error_within_0.03_percent",
    )
    return []


_SNAPPED = []


def _times_den(h, expr, u, cosD, sinD):
    """(1+u^2)^2 * expr with cosD, sinD eliminated; expr must be linear in them"""
    from sx.linabs import Lin

    L = Lin()
    p = L.poly(term_of(expr))
    cid, sid = term_of(cosD).get_id(), term_of(sinD).get_id()
    den = (1 + u * u) * (1 + u * u)
    nc = (1 - u * u) * (1 - u * u) - 4 * u * u
    ns = 4 * u * (1 - u * u)
    parts = {"0": {}, "c": {}, "s": {}}
    for m, c in p.items():
        # float constants of the source (e.g. 4/3 = 1.3333333333333333) are snapped to the
        # small rational they round; the perturbation (< 1e-14 relative per coefficient,
        # monomials bounded by 1) is absorbed by the 1e-9 margin of the assertion.
        # nlsat decides the exact-rational polynomial in 0.01 s and not the float one.
        r_ = c.limit_denominator(10**4)
        if r_ != c and abs(r_ - c) <= F(1, 10**14) * max(1, abs(c)):
            _SNAPPED.append(float(abs(r_ - c)))
            c = r_
        k = [a for a in m if a in (cid, sid)]
        rest = tuple(a for a in m if a not in (cid, sid))
        if len(k) == 0:
            parts["0"][rest] = parts["0"].get(rest, 0) + c
        elif len(k) == 1:
            key = "c" if k[0] == cid else "s"
            parts[key][rest] = parts[key].get(rest, 0) + c
        else:
            return None
    t0 = SymReal(L.term(parts["0"])) if parts["0"] else 0
    tc = SymReal(L.term(parts["c"])) if parts["c"] else 0
    ts = SymReal(L.term(parts["s"])) if parts["s"] else 0
    # L.term replaced nonlinear monomials by mono vars: rebuild true products instead
    return _rebuild(L, parts["0"]) * den + _rebuild(L, parts["c"]) * nc + _rebuild(L, parts["s"]) * ns


def _rebuild(L, p):
    tot = 0
    for m, c in p.items():
        term = SymReal(z3.RealVal(f"{c.numerator}/{c.denominator}"))
        for a in m:
            term = term * SymReal(L.atom_of[a])
        tot = tot + term
    return tot if not isinstance(tot, int) else SymReal(z3.RealVal(0))


# ------------------------------------------------------------------ part 4
# rotations whose cos/sin are (within 1e-16) the Pythagorean rationals 4/5,3/5 and 12/13,5/13: small
# coefficients keep nlsat fast; the sign/quadrant varies
RADII_ROTATIONS = [0, 36.86989764584402, 90, -22.619864948040426, 216.86989764584402]


def make_radii(rot, sx_sign, sy_sign):
  def h_radii(h):
      """correct_out_of_range_radii for radii of either sign and a rotated ellipse frame: the corrected
      radii are positive, fit the chord IN THE ELLIPSE'S OWN FRAME (SVG F.6.6: x1' = cos(phi) dx/2 +
      sin(phi) dy/2, y1' = -sin(phi) dx/2 + cos(phi) dy/2), never shrink, scale uniformly, and are
      left alone when they fit"""
      A = h.m.arc_to_cubic
      G = h.m.geometric_types
      s = (h.real("sx"), h.real("sy"))
      e = (h.real("ex"), h.real("ey"))
      rx, ry = h.real("rx"), h.real("ry")
      h.assume(h.not_(h.eq(rx, 0)))
      h.assume(h.not_(h.eq(ry, 0)))
      h.assume(h.lt(0, rx) if sx_sign > 0 else h.lt(rx, 0))
      h.assume(h.lt(0, ry) if sy_sign > 0 else h.lt(ry, 0))
      arx = rx if sx_sign > 0 else -rx
      ary = ry if sy_sign > 0 else -ry
      arc = A.EllipticalArc(G.Point(*s), rx, ry, rot, 0, 1, G.Point(*e))
      fixed = arc.correct_out_of_range_radii()
      half = F(1, 2) if h.symbolic else 0.5
      dx, dy = (s[0] - e[0]) * half, (s[1] - e[1]) * half
      phi = math.radians(rot)
      cph, sph = math.cos(phi), math.sin(phi)
      if h.symbolic:
          cph, sph = F(cph).limit_denominator(10**6), F(sph).limit_denominator(10**6)
      hx, hy = cph * dx + sph * dy, -sph * dx + cph * dy
      if h.is_true(h.and_(h.eq(dx, 0), h.eq(dy, 0))):
          return ["zero-length"]  # no ellipse is drawn: nothing to fit
      h.check(h.and_(h.lt(0, fixed.rx), h.lt(0, fixed.ry)), "radii.corrected_radii_positive")
      lhs = hx * hx * (fixed.ry * fixed.ry) + hy * hy * (fixed.rx * fixed.rx)
      rhs = (fixed.rx * fixed.rx) * (fixed.ry * fixed.ry)
      slack = F(1, 10**9) if h.symbolic else 1e-9
      h.check(h.le(lhs, rhs * (1 + slack)), "radii.corrected_radii_fit_the_chord")
      h.check(h.and_(h.le(arx, fixed.rx * (1 + slack)), h.le(ary, fixed.ry * (1 + slack))), "radii.never_shrink")
      h.check(h.close(fixed.rx * ary, fixed.ry * arx, slack * (1 + h.abs(fixed.rx * ary))) if not h.symbolic else h.eq(fixed.rx * ary, fixed.ry * arx), "radii.scaled_uniformly")
      # radii that already fit (with room to spare against the float sin/cos) are left alone
      fits = h.le((hx * hx * (ary * ary) + hy * hy * (arx * arx)) * (1 + slack), (arx * arx) * (ary * ary))
      if h.is_true(fits):
          h.check(h.and_(h.eq(fixed.rx, arx), h.eq(fixed.ry, ary)), "radii.fitting_radii_unchanged")
      return []

  return h_radii


def make_flags(large, sweep):
    """general symbolic arc (rotation 0, radii of EITHER sign, corrected as the converter corrects
    them): the direction in user space is the sign of theta_arc times the orientation rx*ry of the
    map from the unit circle (part 2 proves the control points are that map's image): it must be
    the direction the sweep flag selects; theta_arc spans at most a full turn (linear consequences
    of the code's wrap-around given atan2's range)"""

    def h_flags(h):
        A = h.m.arc_to_cubic
        G = h.m.geometric_types
        s = (h.real("sx"), h.real("sy"))
        e = (h.real("ex"), h.real("ey"))
        rx, ry = h.real("rx"), h.real("ry")
        h.assume(h.not_(h.eq(rx, 0)))
        h.assume(h.not_(h.eq(ry, 0)))
        h.assume(h.not_(h.and_(h.eq(s[0], e[0]), h.eq(s[1], e[1]))))
        arc = A.EllipticalArc(G.Point(*s), rx, ry, 0, large, sweep, G.Point(*e))
        try:
            fixed = arc.correct_out_of_range_radii()
            par = fixed.end_to_center_parametrization()
        except ZeroDivisionError:
            h.tag("zero-division")
            return ["zde"]
        # orientation of unit circle -> user space (forks on the signs: keeps the checks linear)
        px = h.is_true(h.lt(0, fixed.rx))
        py = h.is_true(h.lt(0, fixed.ry))
        keeps = px == py
        h.tag("orientation-kept" if keeps else "orientation-reversed")
        forward = h.le(0, par.theta_arc) if keeps else h.le(par.theta_arc, 0)
        backward = h.le(par.theta_arc, 0) if keeps else h.le(0, par.theta_arc)
        if sweep:
            h.check(forward, "flags.sweep_positive_direction")
        else:
            h.check(backward, "flags.no_sweep_negative_direction")
        two_pi = F(math.pi) * 2 + F(1, 10**9) if h.symbolic else 2 * math.pi + 1e-9
        h.check(h.le(h.abs(par.theta_arc), two_pi), "flags.at_most_full_turn")
        return []

    return h_flags


BASE_ARCS = [
    # (start, rx, ry, rotation, end) in units of the symbolic scale k
    ((0, 0), 1, 1, 0, (1, 1)),
    ((0, 0), 2, 1, 0, (2, 1)),
    ((1, 0), 3, 2, 30, (0, 2)),
    ((0, 0), 1, 1, 0, (1, 0)),
]


def make_centre(idx, large, sweep):
    """a one-parameter family per base arc: every coordinate and radius scaled by a
    symbolic k > 0 ("over several orders of magnitude"); both end points must lie on
    the ellipse (radii as given: they fit) about the reported centre"""
    (bs, brx, bry, brot, be) = BASE_ARCS[idx]

    def h_centre(h):
        A = h.m.arc_to_cubic
        G = h.m.geometric_types
        k = h.real("k")
        h.assume(k > 0)
        s = (k * bs[0], k * bs[1])
        e = (k * be[0], k * be[1])
        rx, ry = k * brx, k * bry
        arc = A.EllipticalArc(G.Point(*s), rx, ry, brot, large, sweep, G.Point(*e))
        fixed = arc.correct_out_of_range_radii()
        try:
            par = fixed.end_to_center_parametrization()
        except ZeroDivisionError:
            h.tag("zero-division")
            return ["zde"]
        c = par.center_point
        phi = math.radians(brot)
        cph, sph = math.cos(phi), math.sin(phi)
        if h.symbolic:
            cph, sph = F(cph), F(sph)
        for nm, p in (("start", s), ("end", e)):
            dx, dy = p[0] - c[0], p[1] - c[1]
            # into the ellipse frame
            ux, uy = cph * dx + sph * dy, -sph * dx + cph * dy
            l = ux * ux * (fixed.ry * fixed.ry) + uy * uy * (fixed.rx * fixed.rx)
            r = (fixed.rx * fixed.rx) * (fixed.ry * fixed.ry)
            tol = r * F(1, 10**6) if h.symbolic else r * 1e-6
            h.check(h.and_(h.le(l, r + tol), h.le(r, l + tol)), f"centre.{nm}_point_on_ellipse")
        return []

    return h_centre


def cases(tier, seed):
    cs = [{"part": "degenerate"}, {"part": "segments"}, {"part": "accuracy"}]
    for rot in RADII_ROTATIONS[:3] if tier == "quick" else RADII_ROTATIONS:
        for sgn in ((1, 1), (-1, 1), (1, -1), (-1, -1)) if rot in RADII_ROTATIONS[:2] else ((1, 1), (-1, 1)):
            cs.append({"part": "radii", "rotation": rot, "signs": list(sgn)})
    for l in (0, 1):
        for s in (0, 1):
            cs.append({"part": "flags", "large": l, "sweep": s})
            for i in range(len(BASE_ARCS)):
                if BASE_ARCS[i][3] != 0 and tier == "quick":
                    continue  # rotated family: float cos/sin coefficients make nlsat slow (minutes)
                cs.append({"part": "centre", "arc": i, "large": l, "sweep": s})
    return cs


def harness_for(case):
    p = case["part"]
    if p == "degenerate":
        return h_degenerate
    if p == "segments":
        return h_segments
    if p == "accuracy":
        return h_accuracy
    if p == "radii":
        return make_radii(case["rotation"], *case["signs"])
    if p == "centre":
        return make_centre(case["arc"], case["large"], case["sweep"])
    return make_flags(case["large"], case["sweep"])


def run_case(case, tier):
    m = c12_mods()
    opts = {"int_enum_bound": 6, "axioms": (), "branch_ms": 3000, "nlsat_ms": 20000}
    if case["part"] == "radii":
        opts["snap_trig"] = True  # cos/sin of the concrete rotation as small rationals (error < 1e-12 << slack 1e-9)
    if case["part"] == "flags":
        opts["branch_ms"] = 400  # branch feasibility is over-approximated; the theta checks are linear
    return common.run_symbolic(
        harness_for(case),
        mods_=m,
        timeout_ms=30000 if tier == "quick" else 120000,
        opts=opts,
        validate_every=5,
        trace_first=2,
        compare_obs=False,
        max_paths=5000,
    )


def finding_key(case, failure):
    k = dict(case)
    k["label"] = failure["label"]
    return k


def replay(case, failure):
    return replay_concrete(harness_for(case), failure, allowed_exceptions=(ZeroDivisionError,))


def describe(tier):
    return {
        "explanation": (
            "arc_to_cubic.py executed symbolically in four parts: degenerate cases with all arguments symbolic; the loop of "
            "_arc_to_cubic for an arbitrary centre parametrisation (segment count by ceil axioms and integer enumeration 0..4, "
            "control/end points equal to the standard circular-arc cubic construction mapped by centre+R(phi)diag(rx,ry), sin/cos/tan "
            "shared uninterpreted symbols); the 0.03% radial accuracy of the control points the real loop body yields, as a "
            "polynomial query in u=tan(D/4) and the curve parameter s with the double-angle identities as axioms; radii correction "
            "and centre computation of end_to_center_parametrization with sqrt/atan2 uninterpreted."
        ),
        "bounds": {
            "degenerate/segments/flags": "all real arguments (|theta_arc| <= 2*pi as end_to_center guarantees)",
            "accuracy": "|u| <= tan((pi/2+.001)/4), s in [0,1]; unit circle, start angle 0",
            "radii": "all real end points, radii of either sign (non-zero), rotations " + ", ".join(str(r) for r in (RADII_ROTATIONS[:3] if tier == "quick" else RADII_ROTATIONS)) + " (cos/sin snapped to the Pythagorean rationals they equal within 1e-16)",
            "flags": "rotation 0, radii of either sign, corrected by correct_out_of_range_radii; direction = sign(theta_arc) * sign(rx*ry)",
            "centre": "base arcs scaled by a symbolic k > 0",
        },
        "outside": [
            "numeric values of sin/cos/tan/atan2 (libm); float cancellation at extreme magnitudes",
            "rotation/affine invariance of the accuracy bound (the standard construction is rotation equivariant; part 2 ties the code to it)",
            "|theta_arc| >= pi <=> large-arc flag (needs the geometric meaning of atan2 differences; not encoded)",
        ],
        "stubs": c12_mods().stubs
        + [
            "part 2/3: correct_out_of_range_radii and end_to_center_parametrization replaced by an arbitrary symbolic parametrisation",
            "part 3: sin/cos/tan of {0, D, D/4} given by the double-angle identities in u=tan(D/4); ceil -> 1 (|D| within one segment)",
        ],
        "assumptions": ["floats as reals", "double-angle identities", "sqrt/hypot/atan2 defining axioms"],
    }
