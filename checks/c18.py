"""C18 - pruning of invisible content is conservative.

might_paint() == False  =>  the shape paints nothing (display none, move-only,
or no visible stroke and no visible fill with area); equivalently anything with
a visible stroke or a visible fill with positive area is reported as possibly
painting.  remove_empty_subpaths / remove_unpainted_shapes only drop such pieces
*under the attributes of the shape they belong to*.
"""
import itertools

import z3

from sx import common, regions
from sx import fake_pathops as FP
from sx.dual import replay_concrete
from sx.spec import path_interp as PI
from sx.values import SymReal, term_of

PROPERTY = "C18"

BATTERY = {
    # concrete geometry that looks empty to one criterion but paints (replay only)
    "quad": [
        [2, 2, 14, 2, 2, 14, 14, 14],  # balanced bow-tie: signed area 0, paints 2 triangles
        [0, 0, 10, 0, 10, 10, 0, 10],
    ],
    "closed": [[0, 0, 10, 0, 5, 8], [0, 0, 10, 0, 20, 0]],
    "two": [[0, 0, 10, 0, 5, 8, 0, 0, 10, 0, 5, 8], [0, 0, 10, 0, 5, 8, 0, 0, 5, 8, 10, 0]],
    "curve": [[0, 0, 10, 10, 0, 10, 10, 0]],
    "seg": [[0, 0, 10, 0]],
}

SKELETONS = {
    "quad": "MLLLZ",
    "move": "M",
    "moves": "MM",
    "seg": "ML",
    "closed": "MLLZ",
    "curve": "MCZ",
    "two": "MLLZMLL",
}
FILLS = ["<default>", "none", "red", "url(#g)"]
STROKES = ["<default>", "none", "blue"]
DISPLAYS = ["<default>", "inline", "none"]
WHERE = ["attr", "style", "both"]  # both: attribute says the opposite, style wins
ARITY = {"M": 2, "L": 2, "C": 6, "Z": 0}


def build_d(h, skel, prefix="c"):
    parts, cmds = [], []
    k = 0
    for L in skel:
        n = ARITY[L]
        vals = [h.real(f"{prefix}{k + j}") for j in range(n)]
        k += n
        cmds.append((L, tuple(vals)))
        parts.append(L + " ".join(str(v) if h.symbolic else repr(v) for v in vals))
    return " ".join(parts), cmds


def leaf_of(cmds, fill_rule):
    verbs, coords = [], []
    for sg in PI.interp(cmds):
        k = sg[0]
        verbs.append(k)
        if k == "M":
            coords += list(sg[1])
        elif k == "L":
            coords += list(sg[2])
        elif k == "C":
            coords += list(sg[2]) + list(sg[3]) + list(sg[4])
    return FP.leaf_term(verbs, FP.FillType.EVEN_ODD if fill_rule == "evenodd" else FP.FillType.WINDING, coords)


def area_var(h, cmds, fill_rule):
    """the abstract area of the region Skia would be asked about: the area
    symbol the implementation obtained for a provably identical Skia input, or a
    fresh one (then the implementation asked about something else)"""
    if all(c == "M" for c, _ in cmds):
        return 0
    t = leaf_of(cmds, fill_rule)
    if t.kind == "empty":
        return 0
    reg = FP._registry()
    atoms = regions.Atoms(h.ctx)
    for cand, a in reg.get("area_terms", []):
        # only the area of the *simplified* region is the painted area; Skia's
        # area of an unsimplified (possibly self-intersecting) path is a signed sum
        if cand.kind != "simplify" and not cand.is_simple():
            continue
        inner = cand.args[0] if cand.kind == "simplify" else cand
        if inner.kind == "leaf" and t.kind == "leaf":
            if inner.args[0] == t.args[0] and inner.args[1] == t.args[1] and atoms._coords_equal(inner.args[2], t.args[2]):
                return a
        elif inner.key == t.key:
            return a
    st = FP.Term("simplify", (t,), ("simplify", t.key)) if not t.is_simple() else t
    p = FP.Path()
    p._term = st
    return p.area


OPP = {"none": "red", "red": "none", "blue": "none", "url(#g)": "none", "inline": "none", "<default>": None}


def place(attrs, style, name, value, where, opposite):
    if value == "<default>":
        return
    if where == "attr":
        attrs[name] = value
    elif where == "style":
        style.append(f"{name}:{value}")
    else:
        attrs[name] = opposite
        style.append(f"{name}: {value} ")


def tok(h, v):
    return str(v) if h.symbolic else repr(float(v))


def make_might_paint(case):
    skel = SKELETONS[case["skel"]]
    fill, stroke, display, where = case["fill"], case["stroke"], case["display"], case["where"]
    fill_rule = case.get("fill_rule", "nonzero")  # the EFFECTIVE rule under the cascade
    fr_where = case.get("fill_rule_where", "attr")  # attr | style | both (attribute says the opposite, style wins)
    may_raise = case.get("raise", False)

    def harness(h):
        T = h.m.svg_types
        d, cmds = build_d(h, skel)
        op, fo, so, sw = h.real("opacity"), h.real("fill_opacity"), h.real("stroke_opacity"), h.real("stroke_width")
        for v in (op, fo, so):
            h.assume(v >= 0)
            h.assume(v <= 1)
        h.assume(sw >= 0)
        attrs, style = {}, []
        place(attrs, style, "fill", fill, where, "none" if fill != "none" else "red")
        place(attrs, style, "stroke", stroke, where, "none" if stroke != "none" else "blue")
        place(attrs, style, "display", display, where, "none" if display != "none" else "inline")
        # numbers: opacity as attribute, fill-opacity in style, rest per 'where'
        kw = {"d": d, "opacity": op}
        if fr_where == "attr":
            kw["fill_rule"] = fill_rule
        else:
            style.append(f"fill-rule:{fill_rule}")
            if fr_where == "both":
                kw["fill_rule"] = "evenodd" if fill_rule == "nonzero" else "nonzero"
        if where == "attr":
            kw.update(fill_opacity=fo, stroke_opacity=so, stroke_width=sw)
        else:
            style += [f"fill-opacity:{tok(h, fo)}", f"stroke-opacity:{tok(h, so)}", f"stroke-width:{tok(h, sw)}"]
            if where == "both":
                kw.update(fill_opacity=0.0, stroke_opacity=0.0, stroke_width=0.0)
        for k_, v_ in attrs.items():
            kw[k_.replace("-", "_")] = v_
        if style:
            kw["style"] = ";".join(style)
        shape = T.SVGPath(**kw)
        try:
            r = shape.might_paint()
        except FP.PathOpsError:
            h.check(False, "might_paint.engine_error_escapes")
            return ["PathOpsError"]
        raised = h.symbolic and any(t.startswith("skia-raise") for t in h.ctx.trace_tags)
        # ---- oracle (SVG cascade: style wins over attribute) ----
        e_fill = "black" if fill == "<default>" else fill
        e_stroke = "none" if stroke == "<default>" else stroke
        e_disp = "inline" if display == "<default>" else display
        move_only = all(c == "M" for c, _ in cmds)
        if e_disp == "none" or move_only:
            h.check(r is False or r is True, "might_paint.bool")
            # nothing to assert for soundness: painting nothing is allowed to be reported either way
            h.tag("paints-nothing-structurally")
            return [bool(r)]
        stroke_vis = h.and_(h.not_(h.eq(op * so, 0)), h.not_(h.eq(sw, 0))) if e_stroke != "none" else False
        fill_vis = h.not_(h.eq(op * fo, 0)) if e_fill != "none" else False
        if h.symbolic:
            a = area_var(h, cmds, fill_rule)
            has_area = h.lt(0, a) if isinstance(a, SymReal) else (a > 0)
        else:
            has_area = _concrete_area(h, cmds, fill_rule) > 0
        if raised:
            h.check(r is True, "might_paint.engine_failure_is_conservative")
            return [True]
        paints = h.or_(stroke_vis, h.and_(fill_vis, has_area))
        if r:
            h.tag("reported-may-paint")
            h.check(True, "might_paint.sound")
        else:
            h.tag("reported-unpainted")
            h.check(h.not_(paints), "might_paint.false_implies_paints_nothing")
        return [bool(r)]

    return harness


def _concrete_area(h, cmds, fill_rule):
    from sx.spec import winding as W

    polys = W.contours(PI.interp(cmds))
    b = W.bbox(polys)
    if b is None:
        return 0
    n = 0
    for q in W.grid(b, n=31, pad=0.01):
        if W.inside(polys, q, fill_rule):
            n += 1
    return n


def make_remove_empty(case):
    skels = [SKELETONS[s] for s in case["pieces"]]
    fill, stroke = case["fill"], case["stroke"]

    def harness(h):
        T = h.m.svg_types
        ds, allc = [], []
        for i, sk in enumerate(skels):
            d, cmds = build_d(h, sk, prefix=f"p{i}_")
            ds.append(d)
            allc.append(cmds)
        op, fo, so, sw = h.real("opacity"), h.real("fill_opacity"), h.real("stroke_opacity"), h.real("stroke_width")
        for v in (op, fo, so):
            h.assume(v >= 0)
            h.assume(v <= 1)
        h.assume(sw >= 0)
        kw = dict(d=" ".join(ds), opacity=op, fill_opacity=fo, stroke_opacity=so, stroke_width=sw)
        if fill != "<default>":
            kw["fill"] = fill
        if stroke != "<default>":
            kw["stroke"] = stroke
        shape = T.SVGPath(**kw)
        out = shape.remove_empty_subpaths()
        kept = [(c, tuple(a)) for c, a in out]
        segs_out = PI.interp(kept)
        e_fill = "black" if fill == "<default>" else fill
        e_stroke = "none" if stroke == "<default>" else stroke
        # which input pieces survive?  match by position of their first M
        kept_starts = [s[1] for s in segs_out if s[0] == "M"]
        kept_n = len(kept_starts)
        # pieces are in order; decide survivors greedily by structure length
        surv = _match(kept, allc)
        if not h.check(surv is not None, "remove_empty_subpaths.result_is_subsequence_of_subpaths", detail=[c for c, _ in kept]):
            return [kept_n]
        for i, cmds in enumerate(allc):
            if i in surv:
                continue
            # piece i was removed: it must paint nothing under the parent's attributes
            move_only = all(c == "M" for c, _ in cmds)
            if move_only:
                h.check(True, "remove_empty_subpaths.removed_piece_paints_nothing")
                continue
            stroke_vis = h.and_(h.not_(h.eq(op * so, 0)), h.not_(h.eq(sw, 0))) if e_stroke != "none" else False
            fill_vis = h.not_(h.eq(op * fo, 0)) if e_fill != "none" else False
            if h.symbolic:
                a = area_var(h, cmds, "nonzero")
                has_area = h.lt(0, a) if isinstance(a, SymReal) else (a > 0)
            else:
                has_area = _concrete_area(h, cmds, "nonzero") > 0
            paints = h.or_(stroke_vis, h.and_(fill_vis, has_area))
            h.check(h.not_(paints), "remove_empty_subpaths.removed_piece_paints_nothing", detail=i)
        return [kept_n]

    return harness


def _same_num(a, b):
    if isinstance(a, SymReal) or isinstance(b, SymReal):
        return z3.simplify(term_of(a)).eq(z3.simplify(term_of(b)))
    return abs(a - b) <= 1e-9 * (1 + abs(a) + abs(b))


def _match(kept, pieces):
    """indices of the pieces (in order) whose concatenation is `kept`;
    pieces are recognised by letters and by their (structurally identical) numbers"""

    def fits(pos, pc):
        blk = kept[pos : pos + len(pc)]
        return len(blk) == len(pc) and all(
            a[0].upper() == b[0].upper() and len(a[1]) == len(b[1]) and all(_same_num(x, y) for x, y in zip(a[1], b[1]))
            for a, b in zip(blk, pc)
        )

    def go(i, pos):
        if i == len(pieces):
            return set() if pos == len(kept) else None
        if fits(pos, pieces[i]):
            r = go(i + 1, pos + len(pieces[i]))
            if r is not None:
                return r | {i}
        return go(i + 1, pos)

    return go(0, 0)


def make_remove_unpainted(case):
    """SVG.remove_unpainted_shapes on a tiny document"""
    kinds = case["shapes"]

    def harness(h):
        S = h.m.svg
        els = []
        meta = []
        for i, kind in enumerate(kinds):
            op = h.real(f"op{i}")
            h.assume(op >= 0)
            h.assume(op <= 1)
            if kind == "rect":
                w, hh = h.real(f"w{i}"), h.real(f"h{i}")
                h.assume(w >= 0)
                h.assume(hh >= 0)
                els.append(f'<rect id="s{i}" x="1" y="2" width="{tok(h, w)}" height="{tok(h, hh)}" opacity="{tok(h, op)}"/>')
                meta.append(("rect", op, (w, hh)))
            elif kind == "line_stroked":
                sw = h.real(f"sw{i}")
                h.assume(sw >= 0)
                els.append(f'<line id="s{i}" x1="0" y1="0" x2="5" y2="5" stroke="red" stroke-width="{tok(h, sw)}" opacity="{tok(h, op)}"/>')
                meta.append(("line_stroked", op, (sw,)))
            elif kind == "hidden":
                els.append(f'<path id="s{i}" d="M0,0 L4,0 L4,4 Z" style="display:none" opacity="{tok(h, op)}"/>')
                meta.append(("hidden", op, ()))
            elif kind == "nofill":
                els.append(f'<path id="s{i}" d="M0,0 L4,0 L4,4 Z" fill="none" opacity="{tok(h, op)}"/>')
                meta.append(("nofill", op, ()))
        doc = f'<svg xmlns="http://www.w3.org/2000/svg" viewBox="0 0 10 10">{"".join(els)}</svg>'
        svg = S.SVG.fromstring(doc)
        out = svg.remove_unpainted_shapes()
        from lxml import etree

        root = etree.fromstring(out.tostring().encode("utf-8"))
        ids = {e.get("id") for e in root.iter() if e.get("id")}
        res = []
        for i, (kind, op, extra) in enumerate(meta):
            kept = f"s{i}" in ids
            res.append(kept)
            if kept:
                continue
            if kind == "rect":
                w, hh = extra
                # a black rect of positive size and non-zero opacity paints
                if h.symbolic:
                    cmds = [("M", (1, 2)), ("L", (1 + w, 2)), ("L", (1 + w, 2 + hh)), ("L", (1, 2 + hh)), ("L", (1, 2)), ("Z", ())]
                    a = area_var(h, cmds, "nonzero")
                    has_area = h.lt(0, a) if isinstance(a, SymReal) else a > 0
                else:
                    has_area = w * hh > 0
                h.check(h.not_(h.and_(h.not_(h.eq(op, 0)), has_area)), "remove_unpainted.removed_shape_paints_nothing", detail=kind)
            elif kind == "line_stroked":
                (sw,) = extra
                h.check(h.or_(h.eq(op, 0), h.eq(sw, 0)), "remove_unpainted.removed_shape_paints_nothing", detail=kind)
            else:
                h.check(True, "remove_unpainted.removed_shape_paints_nothing")
        return res

    return harness


def cases(tier, seed):
    cs = []
    skels = ["move", "seg", "closed", "two", "quad"] if tier == "quick" else list(SKELETONS)
    for sk, fill, stroke, disp in itertools.product(skels, FILLS, STROKES, DISPLAYS):
        wheres = ["attr", "style"] if tier == "quick" else WHERE
        for where in wheres:
            cs.append({"kind": "might_paint", "skel": sk, "fill": fill, "stroke": stroke, "display": disp, "where": where})
    for sk in ("closed", "two", "curve"):
        cs.append({"kind": "might_paint", "skel": sk, "fill": "red", "stroke": "<default>", "display": "<default>", "where": "attr", "fill_rule": "evenodd"})
        cs.append({"kind": "might_paint", "skel": sk, "fill": "red", "stroke": "<default>", "display": "<default>", "where": "attr", "raise": True})
        for fr in ("evenodd", "nonzero"):
            for frw in ("style", "both"):
                cs.append({"kind": "might_paint", "skel": sk, "fill": "red", "stroke": "<default>", "display": "<default>", "where": "attr", "fill_rule": fr, "fill_rule_where": frw})
    pieces = ["move", "seg", "closed"]
    for n in (1, 2, 3):
        for combo in itertools.product(pieces, repeat=n):
            for fill, stroke in (("<default>", "<default>"), ("none", "blue"), ("red", "blue"), ("none", "<default>")):
                cs.append({"kind": "remove_empty", "pieces": list(combo), "fill": fill, "stroke": stroke})
    kinds = ["rect", "line_stroked", "hidden", "nofill"]
    for n in (1, 2):
        for combo in itertools.product(kinds, repeat=n):
            cs.append({"kind": "remove_unpainted", "shapes": list(combo)})
    return cs


def harness_for(case):
    return {"might_paint": make_might_paint, "remove_empty": make_remove_empty, "remove_unpainted": make_remove_unpainted}[case["kind"]](case)


def run_case(case, tier):
    m = common.mods(fake_skia=True)
    return common.run_symbolic(
        harness_for(case),
        mods_=m,
        timeout_ms=10000,
        opts={"skia_may_raise": bool(case.get("raise")), "snap_cut": True},
        validate_every=7,
        trace_first=1,
        compare_obs=False,
    )


def finding_key(case, failure):
    k = {"kind": case["kind"], "label": failure["label"]}
    if case["kind"] == "remove_empty":
        # normal form: does the parent have a visible-stroke configuration?
        k["stroke"] = "stroked-parent" if case["stroke"] not in ("<default>", "none") else "unstroked-parent"
        k["fill"] = "unfilled-parent" if case["fill"] == "none" else "filled-parent"
    elif case["kind"] == "might_paint":
        k.update(fill=case["fill"], stroke=case["stroke"], display=case["display"], where=case["where"], skel=case["skel"])
    else:
        k["shapes"] = "+".join(case["shapes"])
    return k


def replay(case, failure):
    rep = replay_concrete(harness_for(case), failure)
    if rep.get("reproduced") or case["kind"] != "might_paint":
        return rep
    # the abstract area says "the implementation asked Skia about something other
    # than the painted region": confirm on concrete shapes that look empty to one
    # criterion only (numbers of the witness are irrelevant for that)
    for coords in BATTERY.get(case["skel"], []):
        f2 = dict(failure)
        inp = dict(failure["inputs"])
        for i, v in enumerate(coords):
            inp[f"c{i}"] = str(v)
        for k, v in (("opacity", "1"), ("fill_opacity", "1"), ("stroke_opacity", "1"), ("stroke_width", "1")):
            inp[k] = v
        f2["inputs"] = inp
        r2 = replay_concrete(harness_for(case), f2)
        if r2.get("reproduced"):
            r2["detail"] = "battery shape " + str(coords) + ": " + r2["detail"]
            return r2
    return rep


def describe(tier):
    return {
        "explanation": (
            "Symbolic execution of SVGShape.might_paint, apply_style_attribute, parse_css_declarations, SVGPath.subpaths/"
            "remove_empty_subpaths, SVG.remove_unpainted_shapes with opacities, stroke width and coordinates as z3 reals and the "
            "abstract Skia area (uninterpreted, >= 0, a function of the region term actually handed to Skia). Oracle: the SVG "
            "paint cascade (style beats attribute). Assertion: reported-unpainted => paints nothing."
        ),
        "bounds": {
            "skeletons": list(SKELETONS) if tier != "quick" else ["move", "seg", "closed", "two"],
            "fill_rule": "nonzero/evenodd given as attribute, in style, or both with the attribute saying the opposite (style wins)",
            "paint": "fill in default/none/colour/url x stroke in default/none/colour x display in default/inline/none, given as attribute / style" + (" / both" if tier != "quick" else ""),
            "numbers": "opacity, fill-opacity, stroke-opacity in [0,1], stroke-width >= 0, all coordinates: every real",
            "remove_empty_subpaths": "1..3 pieces of move/segment/closed, 4 paint configurations",
            "remove_unpainted_shapes": "documents of 1..2 shapes of 4 kinds",
        },
        "outside": [
            "area > 0 <=> non-empty interior (Skia simplify + area; trusted)",
            "zero-length stroked segments (reported as possibly painting: conservative)",
            "the 1e-9 snap band of _rewrite_path (assumed empty; decided in C09)",
        ],
        "stubs": common.mods().stubs + FP.CONTRACT,
        "assumptions": FP.CONTRACT + ["floats modelled as exact reals"],
    }
