"""C16 - output bytes depend only on input bytes and options.

Hash randomisation becomes a symbolic input: under the loader every set /
frozenset (displays, comprehensions, constructor calls) iterates in an order
chosen by the explorer (all permutations up to 3 elements, rotations and
reversals beyond), including the module-level sets evaluated at import (the
modules are re-loaded inside the explored function).  The converted string must
be identical on every order path.  Process history becomes data: convert(B)
after convert(A) in the same module instance vs in a fresh one.
"""
import itertools

from checks import pool
from checks.pipeline_common import symbols, instantiate, PIPE_OUTSIDE, PIPE_OPTS
from sx import common, loader
from sx import ctx as C
from sx import fake_pathops as FP
from sx.dual import SymH

PROPERTY = "C16"
EXC = (ValueError, ZeroDivisionError, AssertionError, NotImplementedError)
DOCS = [
    "C06:href_attrs_and_stops", "C05:g_g_opacity", "C03:clip_the_clip", "C04:inherited_from_group", "special:comment_pi_foreign", "special:grad_shared_transformed_untransformed",
]
# concrete values: C16 quantifies over iteration orders and histories, not numbers
VALUES = {"default": 2.5, "o": 0.5, "w": 7.0, "h": 5.0, "s": 1.5, "r": 3.0}


def _setops(name, tree):
    """also route C-level set algebra (dict views, set operators) through the order-aware set"""
    return loader.SetOpRewriter().visit(tree)


def template_of(name):
    if name.startswith("unsupported:"):
        return pool.UNSUPPORTED[name.split(":", 1)[1]]
    return pool.family_templates("thorough")[name]


def concrete_doc(name):
    import re

    t = template_of(name)

    def sub(m):
        n = m.group(1)
        if n == "rootattrs":
            return ""
        base = VALUES.get(n[0], VALUES["default"])
        k = int("".join(c for c in n if c.isdigit()) or 0)
        return repr(base + 0.25 * k)

    return re.sub(r"\{([A-Za-z_][A-Za-z0-9_]*)\}", sub, t)


def convert_with(mods, text, **kw):
    try:
        return mods.svg.SVG.fromstring(text).topicosvg(**kw).tostring()
    except EXC as e:
        return f"EXC:{type(e).__name__}:{e}"


def run_order_case(name, kw):
    """Explore iteration orders one iteration event at a time: event k (the k-th time a set
    with >= 2 elements is iterated, module import included) takes every order the explorer
    offers while all other sets iterate in insertion order.  Baseline and permuted conversion
    run inside ONE symbolic path on the template with symbolic numbers, so the comparison is
    'for all numbers: same structure, numbers provably equal' (SMT validity per path)."""
    from checks import outcheck

    template = pool.family_templates("thorough")[name] if not name.startswith("unsupported:") else pool.UNSUPPORTED[name.split(":", 1)[1]]
    stats = {"paths": 0, "queries": 0, "solver_s": 0.0, "checks": 0, "failures": [], "inconclusive": [], "events": 0, "unknown": 0}
    opts = dict(PIPE_OPTS)
    opts.update({"set_order": "symbolic", "tol_cut": True})

    def make(site):
        def harness(ctx):
            h = SymH(ctx, None)
            vals = symbols(h, template)
            src = instantiate(h, template, vals)
            ctx.opts["set_order_site"] = -1
            ctx.set_events = 0
            m0 = loader.load(fake_skia=True, extra_ast=_setops)
            try:
                out0 = convert_with(m0, src, **kw)
            finally:
                loader.unload(m0)
            stats["events"] = max(stats["events"], ctx.set_events)
            if site is None:
                return out0
            ctx.opts["set_order_site"] = site
            ctx.set_events = 0
            m1 = loader.load(fake_skia=True, extra_ast=_setops)
            try:
                out1 = convert_with(m1, src, **kw)
            finally:
                loader.unload(m1)
            if out0.startswith("EXC:") or out1.startswith("EXC:"):
                h.check(out0 == out1, "error_text_depends_on_set_iteration_order", detail=(out0[:200], out1[:200]))
            else:
                outcheck.same_document(h, out0, out1, "output_depends_on_set_iteration_order", ordered=True)
            return out1

        return harness

    C.explore(make(None), opts=dict(opts), max_paths=3, timeout_ms=5000)
    for k in range(stats["events"]):
        st = C.explore(make(k), opts=dict(opts), max_paths=40, timeout_ms=10000)
        for key in ("paths", "queries", "solver_s", "checks"):
            stats[key] += st[key]
        stats["unknown"] += st["unknown_check"]
        for f in st["failures"]:
            f["site"] = k
            stats["failures"].append(f)
        stats["inconclusive"] += [x for x in st["inconclusive"] if "truncated" not in x]
    return stats


def template_names(name):
    from checks.pipeline_common import NAME_RE

    names = []
    for n in NAME_RE.findall(pool.family_templates("thorough")[name]):
        if n not in names and n != "rootattrs":
            names.append(n)
    return names


def run_history_sym_case(name, vary):
    """Symbolic history: document A (all numbers symbolic) is converted, then document B in the SAME
    module instance, where B is A with the number `vary` replaced by an independent symbol (every
    other number is the same term, hence prints as the same text: whatever a cache might key on is
    shared except for that one spot).  B's output must equal B's output from a fresh instance for
    all values (SMT validity per path)."""
    from checks import outcheck

    template = pool.family_templates("thorough")[name]
    opts = dict(PIPE_OPTS)
    opts.update({"tol_cut": True})

    def harness(ctx):
        h = SymH(ctx, None)
        vals_a = symbols(h, template)
        vals_b = dict(vals_a)
        if vary is not None:
            v = h.real(vary + "_b")
            if vary[0] == "o":
                h.assume(v >= 0)
                h.assume(v <= 1)
            elif vary[0] in "whrs":
                h.assume(v > 0)
            vals_b[vary] = v
            h.assume(h.not_(h.eq(v, vals_a[vary])))  # B really differs from A
        src_a = instantiate(h, template, vals_a)
        src_b = instantiate(h, template, vals_b)
        m1 = loader.load(fake_skia=True, extra_ast=_setops)
        try:
            convert_with(m1, src_a)
            out_after = convert_with(m1, src_b)
        finally:
            loader.unload(m1)
        m2 = loader.load(fake_skia=True, extra_ast=_setops)
        try:
            out_fresh = convert_with(m2, src_b)
        finally:
            loader.unload(m2)
        if out_after.startswith("EXC:") or out_fresh.startswith("EXC:"):
            h.check(out_after == out_fresh, "output_depends_on_earlier_conversions", detail=(out_after[:200], out_fresh[:200]))
        else:
            outcheck.same_document(h, out_after, out_fresh, "output_depends_on_earlier_conversions", ordered=True)
        return out_after

    return C.explore(harness, opts=opts, max_paths=60, timeout_ms=10000)


def run_history_case(a, b):
    """convert(B) after convert(A) in one module instance == convert(B) in a fresh instance"""
    ta, tb = concrete_doc(a), concrete_doc(b)
    with C.concrete_context():
        m1 = loader.load(fake_skia=False)
        convert_with(m1, ta)
        out_after = convert_with(m1, tb)
        loader.unload(m1)
        m2 = loader.load(fake_skia=False)
        out_fresh = convert_with(m2, tb)
        loader.unload(m2)
    return out_after, out_fresh


def cases(tier, seed):
    cs = []
    for d in DOCS:
        cs.append({"kind": "order", "doc": d, "kw": {}})
    cs.append({"kind": "order", "doc": "special:comment_pi_foreign", "kw": {"drop_unsupported": True}})
    cs.append({"kind": "order_error_message", "doc": "unsupported:text"})
    # text passes through verbatim with allow_text: attribute order of pushed-down attributes shows
    cs.append({"kind": "order", "doc": "unsupported:text_in_group", "kw": {"allow_text": True}})
    for a, b in itertools.permutations(DOCS, 2):
        cs.append({"kind": "history", "a": a, "b": b})
    for d in DOCS:
        for n in [None] + template_names(d):
            cs.append({"kind": "history_sym", "doc": d, "vary": n})
    return cs


def run_case(case, tier):
    res = {
        "paths": 0, "queries": 0, "solver_s": 0.0, "checks": 0, "unknown_check": 0, "failures": [], "inconclusive": [],
        "validated": 0, "nontrivial": 0, "vacuity_twins": 0, "vacuity_twins_violated": 0, "functions": [], "sample": None, "extra": {},
    }
    if case["kind"] in ("order", "order_error_message"):
        name = "unsupported:text" if case["kind"] == "order_error_message" else case["doc"]
        st = run_order_case(name, case.get("kw", {}))
        res.update({k: st[k] for k in ("paths", "queries", "solver_s", "checks", "failures", "inconclusive")})
        res["unknown_check"] = st["unknown"]
        res["nontrivial"] = st["paths"]
        res["sample"] = {"doc": name, "set_iteration_events": st["events"], "order_paths": st["paths"]}
        _validate(case, res)
        return res
    if case["kind"] == "history_sym":
        st = run_history_sym_case(case["doc"], case["vary"])
        res.update({k: st[k] for k in ("paths", "queries", "solver_s", "checks", "failures")})
        res["inconclusive"] = [x for x in st["inconclusive"] if "truncated" not in x]
        res["unknown_check"] = st["unknown_check"]
        res["nontrivial"] = st["paths"]
        res["sample"] = {"doc": case["doc"], "vary": case["vary"], "paths": st["paths"]}
        import zlib

        if case["vary"] is None or zlib.crc32(f"{case['doc']}/{case['vary']}".encode()) % 4 == 0:
            _validate(case, res)
        return res
    out_after, out_fresh = run_history_case(case["a"], case["b"])
    res["paths"] = 2
    res["nontrivial"] = 2
    res["checks"] = 1
    res["sample"] = {"history": [case["a"], case["b"]], "equal": out_after == out_fresh}
    if out_after != out_fresh:
        res["failures"].append({
            "label": "output_depends_on_earlier_conversions",
            "inputs": {},
            "detail": {"after": out_after[:300], "fresh": out_fresh[:300], "choices": {}},
            "decisions": [],
        })
    return res


def _validate(case, res):
    """translator validation: where the symbolic verdict is 'held', the real package must agree on
    the concrete instance (hash seeds / one process vs fresh process)"""
    if res["failures"]:
        return
    rep = replay(case, {"label": "validation", "inputs": {}})
    if rep.get("reproduced"):
        res["inconclusive"].append(f"translator validation: real package disagrees: {rep.get('detail')}")
    else:
        res["validated"] += 1


def orig_text(t):
    import re

    return re.sub(r"\{([A-Za-z_][A-Za-z0-9_]*)\}", "2.5", t)


def finding_key(case, failure):
    k = {"kind": case["kind"], "label": failure["label"]}
    k.update({x: case[x] for x in ("doc", "a", "b", "vary") if x in case})
    return k


def replay(case, failure):
    """replay on the normally imported package: run the conversion in subprocesses with different
    PYTHONHASHSEED values (order findings) / in one process in both orders (history findings)"""
    import subprocess
    import sys
    import json
    import os

    if case["kind"] == "history_sym":
        import fractions, re as _re

        tpl = pool.family_templates("thorough")[case["doc"]]
        inp = failure.get("inputs") or {}

        def inst(second):
            def sub(m):
                n = m.group(1)
                if n == "rootattrs":
                    return ""
                key = n + "_b" if (second and n == case["vary"]) else n
                return repr(float(fractions.Fraction(inp.get(key, "2.5"))))

            return _re.sub(r"\{([A-Za-z_][A-Za-z0-9_]*)\}", sub, tpl)

        docs = [inst(False), inst(True)]
        # the abstract-Skia refutation says WHICH number leaks from A into B; whether two concrete
        # shapes overlap so that it shows is geometry: also try a battery of spread-out layouts
        import zlib

        def layout(salt, second):
            def sub(m):
                n = m.group(1)
                if n == "rootattrs":
                    return ""
                r = zlib.crc32(f"{n}/{salt}".encode())
                if n[0] == "o":
                    v = 0.25 + (r % 3) * 0.25
                elif n[0] in "whrs":
                    v = 6.0 + r % 9
                else:
                    v = 1.0 + r % 13
                if second and n == case["vary"]:
                    v = v * 0.5 if n[0] == "o" else v + 3.0
                return repr(v)

            return _re.sub(r"\{([A-Za-z_][A-Za-z0-9_]*)\}", sub, tpl)

        battery = [docs] + [[layout(k, False), layout(k, True)] for k in range(8)]
    if case["kind"] in ("history", "history_sym"):
        if case["kind"] == "history":
            docs = [concrete_doc(case["a"]), concrete_doc(case["b"])]
        code = (
            "import sys, json\nfrom picosvg.svg import SVG\n"
            "a, b = json.load(sys.stdin)\n"
            "def conv(t):\n"
            "    try:\n        return SVG.fromstring(t).topicosvg().tostring()\n"
            "    except Exception as e:\n        return 'EXC:%s:%s' % (type(e).__name__, e)\n"
            "mode = sys.argv[1]\n"
            "if mode == 'after':\n    conv(a)\nprint(conv(b))\n"
        )
        if case["kind"] == "history":
            battery = [docs]
        for i, docs in enumerate(battery):
            outs = []
            for mode in ("after", "fresh"):
                p = subprocess.run([sys.executable, "-c", code, mode], input=json.dumps(docs), capture_output=True, text=True, env=dict(os.environ, PYTHONHASHSEED="0"))
                outs.append(p.stdout)
            if outs[0] != outs[1]:
                return {"reproduced": True, "detail": f"real package, one process vs fresh process (layout {i})", "docs": docs, "after": outs[0][:400], "fresh": outs[1][:400]}
        return {"reproduced": False, "detail": "real package, one process vs fresh process"}
    text = orig_text(pool.UNSUPPORTED["text"]) if case["kind"] == "order_error_message" else concrete_doc(case["doc"])
    if failure.get("inputs"):
        # numbers of the solver's witness
        import fractions, re as _re
        tpl = pool.UNSUPPORTED["text"] if case["kind"] == "order_error_message" else template_of(case["doc"])
        text = _re.sub(r"\{([A-Za-z_][A-Za-z0-9_]*)\}", lambda m: "" if m.group(1) == "rootattrs" else repr(float(fractions.Fraction(failure["inputs"].get(m.group(1), "2.5")))), tpl)
    kw = case.get("kw", {})
    code = (
        "import sys, json\nfrom picosvg.svg import SVG\n"
        "t, kw = json.load(sys.stdin)\n"
        "try:\n    print(SVG.fromstring(t).topicosvg(**kw).tostring())\n"
        "except Exception as e:\n    print('EXC:%s:%s' % (type(e).__name__, e))\n"
    )
    seen = set()
    for seed in range(0, 24 if failure.get("label") != "validation" else 6):
        p = subprocess.run([sys.executable, "-c", code], input=json.dumps([text, kw]), capture_output=True, text=True, env=dict(os.environ, PYTHONHASHSEED=str(seed)))
        seen.add(p.stdout)
    return {"reproduced": len(seen) > 1, "detail": f"{len(seen)} distinct outputs over 24 PYTHONHASHSEED values"}


def describe(tier):
    return {
        "explanation": (
            "Set iteration order as an explorer-chosen input: the picosvg modules are re-loaded inside the explored function with "
            "every set display / comprehension / set() / frozenset() replaced by an order-aware set whose iteration order is forked "
            "over permutations (<=3 elements) or rotations+reversals (more), including module-level tables such as the stop field "
            "tuple; the converted string (or the error text) must be the same on every order path.  Process history: convert(B) "
            "after convert(A) in one loaded module instance vs a fresh instance, all ordered pairs of 6 documents (shared module "
            "state: lru_cache on SVG._inherited_attrib, class attributes, the _SVG_ARG_FIXUPS defaultdict).  Order cases run on the symbolic templates (numbers universally quantified, abstract Skia); history cases use concrete numbers and real Skia.  Refutations are replayed on the real package "
            "across PYTHONHASHSEED values / processes."
        ),
        "bounds": {"documents": DOCS, "orders": "one iteration event at a time (every other set in insertion order): all permutations of sets with <= 3 elements, 2n rotations/reversals up to 6 elements, identity/reversal/two rotations beyond; order fixed per set object until mutated; interactions between two permuted sets are not explored", "histories": "all 30 ordered pairs"},
        "outside": ["nondeterminism inside lxml / Skia", "OS-level process effects", "dict iteration (insertion ordered by language guarantee)"],
        "stubs": ["set/frozenset/set displays -> order-aware SxSet (sx/loader.py)"],
        "assumptions": ["dicts are insertion ordered", "sorted() of a set is order independent"],
    }
