"""C16 - output bytes depend only on input bytes and options.

Hash randomisation becomes a symbolic input: under the loader every set /
frozenset (displays, comprehensions, constructor calls) iterates in an order
chosen by the explorer (all permutations up to 3 elements, rotations and
reversals beyond), including the module-level sets evaluated at import (the
modules are re-loaded inside the explored function).  The converted string must
be identical on every order path.  Process history becomes data: convert(B)
after convert(A) in the same module instance vs in a fresh one.
"""
import itertools

from checks import pool
from checks.pipeline_common import symbols, instantiate, PIPE_OUTSIDE, PIPE_OPTS
from sx import common, loader
from sx import ctx as C
from sx import fake_pathops as FP
from sx.dual import SymH

PROPERTY = "C16"
EXC = (ValueError, ZeroDivisionError, AssertionError, NotImplementedError)
DOCS = [
    "C06:href_attrs_and_stops", "C05:g_g_opacity", "C03:clip_the_clip", "C04:inherited_from_group", "special:comment_pi_foreign", "special:grad_shared_transformed_untransformed",
]
# concrete values: C16 quantifies over iteration orders and histories, not numbers
VALUES = {"default": 2.5, "o": 0.5, "w": 7.0, "h": 5.0, "s": 1.5, "r": 3.0}


def concrete_doc(name):
    import re

    t = pool.family_templates("thorough")[name]

    def sub(m):
        n = m.group(1)
        if n == "rootattrs":
            return ""
        base = VALUES.get(n[0], VALUES["default"])
        k = int("".join(c for c in n if c.isdigit()) or 0)
        return repr(base + 0.25 * k)

    return re.sub(r"\{([A-Za-z_][A-Za-z0-9_]*)\}", sub, t)


def convert_with(mods, text, **kw):
    try:
        return mods.svg.SVG.fromstring(text).topicosvg(**kw).tostring()
    except EXC as e:
        return f"EXC:{type(e).__name__}:{e}"


def run_order_case(name, kw):
    """explore every iteration order the explorer can choose; all outputs must coincide"""
    text = concrete_doc(name)
    outs = {}
    n_paths = [0]

    def harness(ctx):
        mods = loader.load(fake_skia=False)  # real Skia: numbers are concrete here
        try:
            out = convert_with(mods, text, **kw)
        finally:
            loader.unload(mods)
        n_paths[0] += 1
        outs.setdefault(out, list(ctx.decisions))
        return out

    st = C.explore(harness, opts={"set_order": "symbolic"}, max_paths=4000, timeout_ms=5000)
    return outs, st, n_paths[0]


def run_history_case(a, b):
    """convert(B) after convert(A) in one module instance == convert(B) in a fresh instance"""
    ta, tb = concrete_doc(a), concrete_doc(b)
    with C.concrete_context():
        m1 = loader.load(fake_skia=False)
        convert_with(m1, ta)
        out_after = convert_with(m1, tb)
        loader.unload(m1)
        m2 = loader.load(fake_skia=False)
        out_fresh = convert_with(m2, tb)
        loader.unload(m2)
    return out_after, out_fresh


def cases(tier, seed):
    cs = []
    for d in DOCS:
        cs.append({"kind": "order", "doc": d, "kw": {}})
    cs.append({"kind": "order", "doc": "special:comment_pi_foreign", "kw": {"drop_unsupported": True}})
    cs.append({"kind": "order_error_message", "doc": "unsupported:text"})
    for a, b in itertools.permutations(DOCS, 2):
        cs.append({"kind": "history", "a": a, "b": b})
    return cs


def run_case(case, tier):
    res = {
        "paths": 0, "queries": 0, "solver_s": 0.0, "checks": 0, "unknown_check": 0, "failures": [], "inconclusive": [],
        "validated": 0, "nontrivial": 0, "vacuity_twins": 0, "vacuity_twins_violated": 0, "functions": [], "sample": None, "extra": {},
    }
    if case["kind"] in ("order", "order_error_message"):
        if case["kind"] == "order_error_message":
            # the text of the 'Unable to convert' error lists violations: set iteration order must not show
            pool_text = pool.UNSUPPORTED["text"]
            name = "unsupported:text"
            import checks.c16 as me

            orig = me.concrete_doc
            me.concrete_doc = lambda n: orig_text(pool_text)
            try:
                outs, st, n = run_order_case(name, {})
            finally:
                me.concrete_doc = orig
        else:
            outs, st, n = run_order_case(case["doc"], case["kw"])
        res["paths"] = n
        res["nontrivial"] = n
        res["checks"] = n
        res["inconclusive"] = list(st["inconclusive"])
        res["sample"] = {"doc": case.get("doc"), "order_paths": n, "distinct_outputs": len(outs), "decisions_of_first": next(iter(outs.values()))[:20] if outs else []}
        if len(outs) > 1:
            items = list(outs.items())
            res["failures"].append({
                "label": "output_depends_on_set_iteration_order",
                "inputs": {},
                "detail": {"decisions": [items[0][1], items[1][1]], "a": items[0][0][:300], "b": items[1][0][:300], "choices": {}},
                "decisions": items[1][1],
            })
        return res
    out_after, out_fresh = run_history_case(case["a"], case["b"])
    res["paths"] = 2
    res["nontrivial"] = 2
    res["checks"] = 1
    res["sample"] = {"history": [case["a"], case["b"]], "equal": out_after == out_fresh}
    if out_after != out_fresh:
        res["failures"].append({
            "label": "output_depends_on_earlier_conversions",
            "inputs": {},
            "detail": {"after": out_after[:300], "fresh": out_fresh[:300], "choices": {}},
            "decisions": [],
        })
    return res


def orig_text(t):
    import re

    return re.sub(r"\{([A-Za-z_][A-Za-z0-9_]*)\}", "2.5", t)


def finding_key(case, failure):
    k = {"kind": case["kind"], "label": failure["label"]}
    k.update({x: case[x] for x in ("doc", "a", "b") if x in case})
    return k


def replay(case, failure):
    """replay on the normally imported package: run the conversion in subprocesses with different
    PYTHONHASHSEED values (order findings) / in one process in both orders (history findings)"""
    import subprocess
    import sys
    import json
    import os

    if case["kind"] == "history":
        code = (
            "import sys, json\nfrom picosvg.svg import SVG\n"
            "a, b = json.load(sys.stdin)\n"
            "def conv(t):\n"
            "    try:\n        return SVG.fromstring(t).topicosvg().tostring()\n"
            "    except Exception as e:\n        return 'EXC:%s:%s' % (type(e).__name__, e)\n"
            "mode = sys.argv[1]\n"
            "if mode == 'after':\n    conv(a)\nprint(conv(b))\n"
        )
        outs = []
        for mode in ("after", "fresh"):
            p = subprocess.run([sys.executable, "-c", code, mode], input=json.dumps([concrete_doc(case["a"]), concrete_doc(case["b"])]), capture_output=True, text=True, env=dict(os.environ, PYTHONHASHSEED="0"))
            outs.append(p.stdout)
        return {"reproduced": outs[0] != outs[1], "detail": "real package, one process vs fresh process"}
    text = orig_text(pool.UNSUPPORTED["text"]) if case["kind"] == "order_error_message" else concrete_doc(case["doc"])
    kw = case.get("kw", {})
    code = (
        "import sys, json\nfrom picosvg.svg import SVG\n"
        "t, kw = json.load(sys.stdin)\n"
        "try:\n    print(SVG.fromstring(t).topicosvg(**kw).tostring())\n"
        "except Exception as e:\n    print('EXC:%s:%s' % (type(e).__name__, e))\n"
    )
    seen = set()
    for seed in range(0, 24):
        p = subprocess.run([sys.executable, "-c", code], input=json.dumps([text, kw]), capture_output=True, text=True, env=dict(os.environ, PYTHONHASHSEED=str(seed)))
        seen.add(p.stdout)
    return {"reproduced": len(seen) > 1, "detail": f"{len(seen)} distinct outputs over 24 PYTHONHASHSEED values"}


def describe(tier):
    return {
        "explanation": (
            "Set iteration order as an explorer-chosen input: the picosvg modules are re-loaded inside the explored function with "
            "every set display / comprehension / set() / frozenset() replaced by an order-aware set whose iteration order is forked "
            "over permutations (<=3 elements) or rotations+reversals (more), including module-level tables such as the stop field "
            "tuple; the converted string (or the error text) must be the same on every order path.  Process history: convert(B) "
            "after convert(A) in one loaded module instance vs a fresh instance, all ordered pairs of 6 documents (shared module "
            "state: lru_cache on SVG._inherited_attrib, class attributes, the _SVG_ARG_FIXUPS defaultdict).  Numbers are concrete "
            "(real Skia): this property quantifies over orders and histories.  Refutations are replayed on the real package "
            "across PYTHONHASHSEED values / processes."
        ),
        "bounds": {"documents": DOCS, "orders": "all permutations of sets with <= 3 elements, 2n rotations/reversals otherwise; order fixed per set object until mutated", "histories": "all 30 ordered pairs"},
        "outside": ["nondeterminism inside lxml / Skia", "OS-level process effects", "dict iteration (insertion ordered by language guarantee)"],
        "stubs": ["set/frozenset/set displays -> order-aware SxSet (sx/loader.py)"],
        "assumptions": ["dicts are insertion ordered", "sorted() of a set is order independent"],
    }
