"""C13 - boolean path operations compute the set operation under each operand's
fill rule (glue level: does picosvg ask Skia the right question and return its
answer?).  Abstract Skia + region-term equivalence; witnesses are replayed on
the real package with real Skia and an independent winding-number sampler.
"""
import itertools

from sx import common, regions
from sx import fake_pathops as FP
from sx.spec import path_interp as PI
from sx.spec import winding as W

PROPERTY = "C13"
SKELETONS = ["MLLZ", "MQZ", "MCZ", "MLL", "MLLZMLLZ"]
REL_SKELETONS = ["MlhZ", "mqtz", "McsZ", "MvHz"]
OPS = ["union", "intersection", "difference"]
RULES = ["nonzero", "evenodd"]
ARITY = {k: v for k, v in PI.ARITY.items()}
ARITY.update({k.upper(): v for k, v in PI.ARITY.items()})
FILL = {"nonzero": FP.FillType.WINDING, "evenodd": FP.FillType.EVEN_ODD}
PATHOP = {"union": FP.PathOp.UNION, "intersection": FP.PathOp.INTERSECTION, "difference": FP.PathOp.DIFFERENCE}

BATTERY = [
    "M0,0 L10,0 L10,10 L0,10 Z M2,2 L8,2 L8,8 L2,8 Z",
    "M5,5 L15,5 L15,15 L5,15 Z M7,7 L13,7 L13,13 L7,13 Z",
    "M-3,4 L12,4 L12,9 L-3,9 Z M-1,5 L6,5 L6,8 L-1,8 Z",
    "M4,-2 C10,-2 10,12 4,12 C-2,12 -2,-2 4,-2 Z M4,1 C7,1 7,9 4,9 C1,9 1,1 4,1 Z",
]


# operand lists in which a prefix has NO interior (open segment, out-and-back sliver, a contour
# traced twice under evenodd) followed by operands that do: an empty intermediate result must not
# end the fold (union) and must not be skipped (intersection / difference)
BATTERIES = [
    BATTERY,
    ["M0,0 L10,0", "M3,3 L9,9 L3,3 Z", "M1,1 L9,1 L5,8 Z", "M2,2 L12,2 L12,12 L2,12 Z"],
    ["M1,1 L9,1 L5,8 Z", "M20,20 L30,20 L25,28 Z", "M0,0 L10,0", "M2,2 L12,2 L12,12 L2,12 Z"],
    ["M0,0 L10,0 L10,10 Z M0,0 L10,0 L10,10 Z", "M0,0 L10,0", "M1,1 L9,1 L5,8 Z", "M2,2 L12,2 L12,12 L2,12 Z"],
]


TRICKY = "M7,0 L8,7 C2,5 9,4 6,6 Z"  # skia-pathops: simplify operation did not succeed


def operand(h, i, skel):
    cmds = []
    k = 0
    for L in skel:
        n = ARITY[L]
        cmds.append((L, tuple(h.real(f"o{i}_{k + j}") for j in range(n))))
        k += n
    return cmds


def d_of(cmds):
    return " ".join(c + " ".join(str(a) for a in args) for c, args in cmds)


def expected(op, leaves):
    t = leaves[0]
    if len(leaves) == 1:
        return FP.Term("simplify", (t,), ("simplify", t.key))
    for u in leaves[1:]:
        t = FP.Term("op", (PATHOP[op], t, u), ("op", int(PATHOP[op]), t.key, u.key))
    return t


def leaf(cmds, rule):
    """expected Skia input: the operand as the independent interpreter reads it"""
    verbs, coords = [], []
    for sg in PI.interp(cmds):
        k = sg[0]
        verbs.append(k)
        if k == "M":
            coords += list(sg[1])
        elif k == "L":
            coords += list(sg[2])
        elif k == "Q":
            coords += list(sg[2]) + list(sg[3])
        elif k == "C":
            coords += list(sg[2]) + list(sg[3]) + list(sg[4])
    return FP.leaf_term(verbs, FILL[rule], coords)


def make_harness(case):
    op, api, rules, skels = case["op"], case["api"], case["rules"], case["skels"]
    may_raise = case.get("raise", False)

    def harness(h):
        P = h.m.svg_pathops
        T = h.m.svg_types
        ctx = h.ctx
        ops = [operand(h, i, s) for i, s in enumerate(skels)]
        out_rules = None
        try:
            if api == "pathops":
                if op == "remove_overlaps":
                    res = list(P.remove_overlaps(ops[0], rules[0]))
                else:
                    res = list(getattr(P, op)(ops, rules))
            elif api == "types":
                shapes = [T.SVGPath(d=d_of(c), clip_rule=r, fill_rule="nonzero" if r == "evenodd" else "evenodd") for c, r in zip(ops, rules)]
                res = list(getattr(T, op)(shapes))
            elif api == "types_fill_rules":
                # explicit fill_rules override clip_rule (intersection only)
                shapes = [T.SVGPath(d=d_of(c), clip_rule="nonzero" if r == "evenodd" else "evenodd") for c, r in zip(ops, rules)]
                res = list(T.intersection(shapes, fill_rules=rules))
            elif api == "path_method":
                p = T.SVGPath(d=d_of(ops[0]), fill_rule=rules[0], clip_rule="nonzero" if rules[0] == "evenodd" else "evenodd")
                q = p.remove_overlaps()
                res = list(q.as_cmd_seq())
                out_rules = (q.fill_rule, q.clip_rule)
            else:
                raise KeyError(api)
        except FP.PathOpsError:
            h.tag("skia-error-propagated")
            h.check(may_raise and any(t.startswith("skia-raise") for t in ctx.trace_tags), "error.only_when_engine_fails")
            return ["PathOpsError"]
        except ValueError as e:
            bad = any(r not in RULES for r in rules)
            h.check(bad, "valueerror.only_for_invalid_rule", detail=str(e)[:80])
            return ["ValueError"]
        h.check(not any(t.startswith("skia-raise") for t in ctx.trace_tags), "error.engine_failure_must_raise")
        if any(r not in RULES for r in rules):
            h.check(False, "invalid_rule.must_raise")
            return ["no error"]
        got = regions.term_of_commands(res)
        exp = expected(op, [leaf(c, r) for c, r in zip(ops, rules)])
        ok, info = regions.equivalent(ctx, exp, got)
        h.check(ok, f"{op}.region", detail=info)
        h.check(all(c in "MLQCZ" for c, _ in res), f"{op}.verbs")
        if out_rules is not None:
            h.check(out_rules == ("nonzero", "nonzero"), "remove_overlaps.result_rules_nonzero", detail=out_rules)
        return [len(res)]

    return harness


def cases(tier, seed):
    cs = []
    nmax = 4
    sk = SKELETONS[:3] if tier == "quick" else SKELETONS
    for op in OPS:
        for n in range(1, nmax + 1):
            for rules in itertools.product(RULES, repeat=n):
                for api in ("pathops", "types") + (("types_fill_rules",) if op == "intersection" else ()):
                    # skeleton choice rotates; all skeletons occur for every (op,n)
                    for s0 in range(len(sk)):
                        skels = [sk[(s0 + i) % len(sk)] for i in range(n)]
                        cs.append({"op": op, "api": api, "rules": list(rules), "skels": skels})
        for n in (1, 2) if tier == "quick" else (1, 2, 3):
            for rules in itertools.product(RULES, repeat=n):
                for s0 in range(len(REL_SKELETONS)):
                    cs.append({"op": op, "api": "types", "rules": list(rules), "skels": [REL_SKELETONS[(s0 + i) % len(REL_SKELETONS)] for i in range(n)]})
        cs.append({"op": op, "api": "pathops", "rules": ["nonzero", "bogus"], "skels": [sk[0], sk[1]]})
        cs.append({"op": op, "api": "types", "rules": ["", "evenodd"], "skels": [sk[0], sk[1]]})
        for n in (1, 2, 3):
            cs.append({"op": op, "api": "pathops", "rules": ["evenodd"] * n, "skels": [sk[i % len(sk)] for i in range(n)], "raise": True})
    for r in RULES:
        for s in sk:
            cs.append({"op": "remove_overlaps", "api": "pathops", "rules": [r], "skels": [s]})
            cs.append({"op": "remove_overlaps", "api": "path_method", "rules": [r], "skels": [s]})
        for s in REL_SKELETONS:
            cs.append({"op": "remove_overlaps", "api": "path_method", "rules": [r], "skels": [s]})
    cs.append({"op": "remove_overlaps", "api": "pathops", "rules": ["winding"], "skels": [sk[0]]})
    cs.append({"op": "remove_overlaps", "api": "pathops", "rules": ["evenodd"], "skels": [sk[0]], "raise": True})
    return cs


def _crc(case):
    import json, zlib

    return zlib.crc32(json.dumps(case, sort_keys=True).encode())


def run_case(case, tier):
    m = common.mods(fake_skia=True)
    res = common.run_symbolic(
        make_harness(case),
        mods_=m,
        timeout_ms=10000,
        opts={"skia_may_raise": bool(case.get("raise")), "snap_cut": True, "skia_may_return_empty": not case.get("raise")},
        validate_every=0,
        trace_first=1,
    )
    # translator validation: the abstract-Skia verdict "held" must agree with the real package and
    # the real Skia on the battery of self-overlapping operands (independent winding sampler);
    # a quarter of the cases in quick, all in thorough
    if not res["failures"] and not case.get("raise") and all(r in RULES for r in case["rules"]) and (tier != "quick" or _crc(case) % 4 == 0):
        rep = replay(case, {"label": "validation"})
        if rep.get("reproduced"):
            res["inconclusive"].append(f"translator validation: real package disagrees on the battery: {rep.get('detail')}")
        else:
            res["validated"] += 1
    return res


def finding_key(case, failure):
    return {"op": case["op"], "api": case["api"], "label": failure["label"], "n": len(case["rules"]), "rules": "/".join(case["rules"])}


# ------------------------------------------------------------------ replay
def _segs(d):
    from picosvg.svg_types import SVGPath

    p = SVGPath(d=d).explicit_lines().expand_shorthand(inplace=True).absolute(inplace=True)
    return PI.interp([(c, tuple(a)) for c, a in p])


def _replay_battery(case, failure, BATTERY):
    """real picosvg + real Skia on a battery of self-overlapping operands,
    compared with the set operation by independent point sampling"""
    from picosvg import svg_pathops as P, svg_types as T
    from picosvg.svg_types import SVGPath
    import pathops

    op, api, rules = case["op"], case["api"], case["rules"]
    n = len(rules)
    label = failure["label"]
    ds = BATTERY[:n]
    seqs = [list(SVGPath(d=d).as_cmd_seq()) for d in ds]
    if label.startswith("error.") or case.get("raise"):
        # engine failure: make the real engine fail by patching its entry points
        orig_op, orig_simplify = pathops.op, pathops.Path.simplify

        def boom(*a, **k):
            raise pathops.PathOpsError("injected")

        try:
            P.pathops.op = boom
            try:
                if op == "remove_overlaps":
                    list(P.remove_overlaps(seqs[0], rules[0]))
                else:
                    list(getattr(P, op)(seqs, rules))
                if n >= 2:
                    return {"reproduced": True, "detail": "engine failure in op() did not raise"}
            except pathops.PathOpsError:
                pass
        finally:
            P.pathops.op = orig_op
        # simplify() is a method of a C type and cannot be patched: use a contour on which the real
        # Skia simplify gives up (checked here first), alone and next to an ordinary operand
        tricky = list(SVGPath(d=TRICKY).as_cmd_seq())
        probe = pathops.Path()
        probe.moveTo(7, 0); probe.lineTo(8, 7); probe.cubicTo(2, 5, 9, 4, 6, 6); probe.close()
        try:
            probe.simplify()
            engine_fails = False
        except pathops.PathOpsError:
            engine_fails = True
        if engine_fails:
            try:
                if op == "remove_overlaps":
                    if api == "path_method":
                        SVGPath(d=TRICKY, fill_rule=rules[0]).remove_overlaps()
                    else:
                        list(P.remove_overlaps(tricky, rules[0]))
                    return {"reproduced": True, "detail": "engine failure in simplify() did not raise", "input": TRICKY}
                elif n == 1:
                    list(getattr(P, op)([tricky], rules[:1]))
                    return {"reproduced": True, "detail": "engine failure in simplify() did not raise", "input": TRICKY}
            except pathops.PathOpsError:
                pass
        return {"reproduced": False, "detail": "engine failure propagates"}
    try:
        if api == "pathops":
            if op == "remove_overlaps":
                res = list(P.remove_overlaps(seqs[0], rules[0]))
            else:
                res = list(getattr(P, op)(seqs, rules))
        elif api == "types":
            shapes = [SVGPath(d=d, clip_rule=r, fill_rule="nonzero" if r == "evenodd" else "evenodd") for d, r in zip(ds, rules)]
            res = list(getattr(T, op)(shapes))
        elif api == "types_fill_rules":
            shapes = [SVGPath(d=d, clip_rule="nonzero" if r == "evenodd" else "evenodd") for d, r in zip(ds, rules)]
            res = list(T.intersection(shapes, fill_rules=rules))
        else:
            p = SVGPath(d=ds[0], fill_rule=rules[0], clip_rule="nonzero" if rules[0] == "evenodd" else "evenodd")
            q = p.remove_overlaps()
            if label == "remove_overlaps.result_rules_nonzero":
                bad = (q.fill_rule, q.clip_rule) != ("nonzero", "nonzero")
                return {"reproduced": bad, "detail": f"rules {(q.fill_rule, q.clip_rule)}"}
            res = list(q.as_cmd_seq())
    except ValueError as e:
        bad_rule = any(r not in RULES for r in rules)
        return {"reproduced": not bad_rule, "detail": f"ValueError {e}"}
    if any(r not in RULES for r in rules):
        return {"reproduced": True, "detail": "invalid rule accepted"}
    polys_in = [W.contours(_segs(d)) for d in ds]
    res_d = " ".join(c + " ".join(repr(float(a)) for a in args) for c, args in res)
    polys_out = W.contours(_segs(res_d)) if res else []
    allp = [p for ps in polys_in for p in ps] + list(polys_out)
    bad = []
    for q in W.grid(W.bbox(allp), n=41):
        if W.edge_distance(allp, q) < 0.12:
            continue
        ins = [W.inside(ps, q, r) for ps, r in zip(polys_in, rules)]
        if op in ("union",):
            want = any(ins)
        elif op == "intersection":
            want = all(ins)
        elif op == "difference":
            want = ins[0] and not any(ins[1:])
        else:
            want = ins[0]
        got_nz = W.inside(polys_out, q, "nonzero")
        got_eo = W.inside(polys_out, q, "evenodd")
        if got_nz != want or got_eo != want:
            bad.append((q, want, got_nz, got_eo))
    return {"reproduced": bool(bad), "detail": f"{len(bad)} sample points disagree; first={bad[:1]}", "battery": ds, "result": res_d[:300]}


def replay(case, failure):
    rep = None
    for b in BATTERIES:
        r = _replay_battery(case, failure, b)
        if r.get("reproduced"):
            return r
        rep = rep or r
    return rep


def describe(tier):
    return {
        "explanation": (
            "Symbolic execution of svg_pathops.skia_path/svg_commands/_do_pathop/union/intersection/difference/remove_overlaps, "
            "svg_types.union/intersection/difference, SVGPath.remove_overlaps/as_cmd_seq on operands with symbolic coordinates "
            "under the abstract Skia; the result's region term must be propositionally equivalent (z3) to the left fold of the set "
            "operation over Leaf(operand_i, fillType(rule_i)), leaves identified by provable coordinate equality. "
            "Refutations are replayed with real Skia on self-overlapping operands and an independent winding-number sampler."
        ),
        "bounds": {
            "operands": "1..4, skeletons " + ",".join(SKELETONS[:3] if tier == "quick" else SKELETONS),
            "rules": "every nonzero/evenodd assignment + invalid rule strings",
            "apis": "svg_pathops functions, svg_types wrappers (clip_rule / explicit fill_rules), SVGPath.remove_overlaps",
            "engine_failure": "abstract op()/simplify() may raise (solver-forked)",
        },
        "outside": [
            "that Skia's op() really is the set operation and that its output is fill-rule independent (C++; trusted contract)",
            "more than 4 operands; the empty operand list",
            "the 1e-9 snap band of _rewrite_path is assumed empty here (decided in C09)",
        ],
        "stubs": common.mods().stubs + FP.CONTRACT,
        "assumptions": FP.CONTRACT,
    }
