"""C20 - a reported reuse transform really maps one shape onto the other.

affine_between(s1, s2, tol) executed symbolically over letter skeletons with
every coordinate and the tolerance as z3 reals.  Soundness oracle: whenever a
transform R is returned, an *independent* application of R to s1 (read by the
independent path interpreter, relative vectors per segment) reproduces s2
within tol, command for command.
"""
import fractions
import itertools

import z3

from sx import common, loader
from sx import ctx as C
from sx.dual import replay_concrete
from sx.spec import path_interp as PI
from sx.values import SymReal, SymBool, term_of

PROPERTY = "C20"
LETTERS_FULL = "lLhHvVcCsSqQtTzZaA"
LETTERS_Q2 = "lLhcqtzS"
SLACK = fractions.Fraction(1, 10**8)

_MODS = None


def c20_mods():
    """own load: SVGShape.almost_equals evaluated as one conjunction (state
    merging; equivalence re-proved by the 'lemma' case)"""
    global _MODS
    if _MODS is not None:
        return _MODS
    m = loader.load(fake_skia=True)
    T = m.svg_types
    from itertools import zip_longest

    orig = T.SVGShape.almost_equals
    T.SVGShape._orig_almost_equals = orig

    def merged(self, other, tolerance):
        conds = []
        for (l_cmd, l_args), (r_cmd, r_args) in zip_longest(self.as_path(), other.as_path(), fillvalue=(None, ())):
            if l_cmd != r_cmd or len(l_args) != len(r_args):
                return False
            for lv, rv in zip(l_args, r_args):
                if isinstance(lv, SymReal) or isinstance(rv, SymReal) or isinstance(tolerance, SymReal):
                    d = term_of(lv) - term_of(rv)
                    tt = term_of(tolerance)
                    conds.append(z3.And(d <= tt, -d <= tt))
                elif abs(lv - rv) > tolerance:
                    return False
        if not conds:
            return True
        return SymBool(z3.And(*conds))

    T.SVGShape.almost_equals = merged
    m.stubs.append(
        "SVGShape.almost_equals evaluated as one conjunction over all arguments (state merging; "
        "equivalence with the source function re-proved by C20 case 'lemma')"
    )
    _MODS = m
    return m


def build(h, seq, stem, nflags=1):
    parts, cmds = [], []
    k = 0
    for i, L in enumerate(seq):
        n = PI.ARITY[L.lower()]
        if L.lower() == "a":
            fl = [(0, 1), (1, 0)][h.choose(nflags, f"flags{i}") if nflags > 1 else 0]
            vals = [h.real(f"{stem}{k}"), h.real(f"{stem}{k+1}"), 0, fl[0], fl[1], h.real(f"{stem}{k+2}"), h.real(f"{stem}{k+3}")]
            k += 4
        else:
            vals = [h.real(f"{stem}{k+j}") for j in range(n)]
            k += n
        cmds.append((L, tuple(vals)))
        toks = [str(v) if h.symbolic else (repr(v) if isinstance(v, float) else str(v)) for v in vals]
        parts.append(L + " ".join(toks))
    return " ".join(parts), cmds


def rel_form(segs):
    """independent relative form: [(kind, [vectors...], extra)] per segment; the
    first M is absolute"""
    out = []
    cur = None
    for s in segs:
        k = s[0]
        if k == "M":
            if cur is None:
                out.append(("M0", [s[1]], None))
            else:
                out.append(("m", [(s[1][0] - cur[0], s[1][1] - cur[1])], None))
            cur = s[1]
        elif k == "Z":
            out.append(("z", [], None))
            cur = s[2]
        elif k == "A":
            p0 = s[1]
            out.append(("a", [(s[3][0] - p0[0], s[3][1] - p0[1])], s[2]))
            cur = s[3]
        else:
            p0 = s[1]
            out.append((k.lower(), [(p[0] - p0[0], p[1] - p0[1]) for p in s[2:]], None))
            cur = s[-1]
    return out


def sound(h, R, cmds1, cmds2, tol, label):
    """R applied (by the definition of an affine map) to s1 == s2 within tol"""
    a, b, c, d, e, f = R
    r1, r2 = rel_form(PI.interp(cmds1)), rel_form(PI.interp(cmds2))
    if len(r1) != len(r2) or any(x[0] != y[0] for x, y in zip(r1, r2)):
        return h.check(False, label + ".structure", detail=([x[0] for x in r1], [y[0] for y in r2]))
    conds = []
    fars = []
    t2 = tol + SLACK if not h.symbolic else tol + SLACK
    for (k, v1, x1), (_, v2, x2) in zip(r1, r2):
        for p, q in zip(v1, v2):
            if k == "M0":
                m = (a * p[0] + c * p[1] + e, b * p[0] + d * p[1] + f)
            else:
                m = (a * p[0] + c * p[1], b * p[0] + d * p[1])
            conds += [h.close(m[0], q[0], t2), h.close(m[1], q[1], t2)]
            fars += [h.far(m[0], q[0], t2 * 2 + fractions.Fraction(1, 100) if h.symbolic else t2 * 2 + 0.01), h.far(m[1], q[1], t2 * 2 + fractions.Fraction(1, 100) if h.symbolic else t2 * 2 + 0.01)]
        if k == "a":
            # flags and rotation must agree; radii: the implementation's documented
            # approximation (scaled by the basis-vector lengths) is outside the claim
            if tuple(x1[3:]) != tuple(x2[3:]):
                return h.check(False, label + ".arcflags")
    if not conds:
        return h.check(True, label)
    return h.check(h.and_(*conds), label, robust=h.or_(*fars) if h.symbolic else None)


def make_try_affine(seq):
    """the verifier: for an ARBITRARY affine R, _try_affine(R, friendly(s1), friendly(s2), tol)
    == True implies that R maps s1 onto s2 within tol (independent application)"""

    def harness(h):
        R_ = h.m.svg_reuse
        T = h.m.svg_types
        A2 = h.m.svg_transform.Affine2D
        d1, c1 = build(h, seq, "a")
        d2, c2 = build(h, seq, "b")
        tol = h.real("tol")
        h.assume(tol > 0)
        R = tuple(h.real(f"R{i}") for i in "abcdef")
        s1 = R_._affine_friendly(T.SVGPath(d=d1))
        s2 = R_._affine_friendly(T.SVGPath(d=d2))
        ok = R_._try_affine(A2(*R), s1, s2, tol, "harness")
        if not ok:
            h.tag("rejected")
            return [False]
        h.tag("accepted")
        sound(h, R, c1, c2, tol, "try_affine.accepts_only_sound")
        return [True]

    return harness


def make_round(seq):
    """_round(affine, s1, s2, tol) returns `affine` itself or a matrix that
    _try_affine accepted; so if `affine` was sound the result is sound"""

    def harness(h):
        R_ = h.m.svg_reuse
        T = h.m.svg_types
        A2 = h.m.svg_transform.Affine2D
        d1, c1 = build(h, seq, "a")
        d2, c2 = build(h, seq, "b")
        tol = h.real("tol")
        h.assume(tol > 0)
        R = tuple(h.real(f"R{i}") for i in "abcdef")
        s1 = R_._affine_friendly(T.SVGPath(d=d1))
        s2 = R_._affine_friendly(T.SVGPath(d=d2))
        # precondition at every call site: the unrounded affine was accepted
        if not R_._try_affine(A2(*R), s1, s2, tol, "pre"):
            return ["n/a"]
        r = R_._round(A2(*R), s1, s2, tol)
        sound(h, tuple(r), c1, c2, tol, "round.result_sound")
        return list(r)

    return harness


def make_identity_return(seq):
    """first return of affine_between: almost_equals(s1, s2, tol) => identity maps
    s1 onto s2 within tol, argument by argument of the commands as given"""

    def harness(h):
        R_ = h.m.svg_reuse
        T = h.m.svg_types
        d1, c1 = build(h, seq, "a")
        d2, c2 = build(h, seq, "b")
        tol = h.real("tol")
        h.assume(tol > 0)
        r = R_.affine_between(T.SVGPath(d=d1, id="x"), T.SVGPath(d=d2, id="y"), tol) if False else None
        eq = T.SVGPath(d=d1, id="x").almost_equals(T.SVGPath(d=d2, id="y"), tol)
        if not eq:
            return [False]
        conds = [h.close(x, y, tol) for (_, a), (_, b) in zip(c1, c2) for x, y in zip(a, b)]
        h.check(h.and_(*conds) if conds else True, "identity_return.sound")
        return [True]

    return harness


def structure_check():
    """Every `return` of affine_between is None, Affine2D.identity() guarded by
    s1.almost_equals(s2, tolerance), or _round(affine, s1, s2, tolerance) guarded
    by _try_affine(affine, s1, s2, tolerance, ...) with the same names and no
    rebinding in between.  Decided on the AST of the loaded source."""
    import ast
    import os

    path = os.path.join(loader.SRC, "svg_reuse.py")
    tree = ast.parse(open(path).read())
    fn = [n for n in tree.body if isinstance(n, ast.FunctionDef) and n.name == "affine_between"]
    if not fn:
        return False, "affine_between not found"
    fn = fn[0]
    problems = []
    n_round = 0

    def guard_ok(test, ret):
        v = ret.value
        if v is None or (isinstance(v, ast.Constant) and v.value is None):
            return True
        if isinstance(v, ast.Call) and ast.unparse(v) == "Affine2D.identity()":
            return ast.unparse(test) == "s1.almost_equals(s2, tolerance)"
        if isinstance(v, ast.Call) and ast.unparse(v.func) == "_round":
            args = [ast.unparse(a) for a in v.args]
            if args != ["affine", "s1", "s2", "tolerance"]:
                return False
            t = test
            return (
                isinstance(t, ast.Call)
                and ast.unparse(t.func) == "_try_affine"
                and [ast.unparse(a) for a in t.args[:4]] == ["affine", "s1", "s2", "tolerance"]
            )
        return False

    def walk(stmts, guard):
        nonlocal n_round
        for st in stmts:
            if isinstance(st, ast.Return):
                v = st.value
                is_none = v is None or (isinstance(v, ast.Constant) and v.value is None)
                if is_none:
                    continue
                if guard is None or not guard_ok(guard, st):
                    problems.append(f"line {st.lineno}: return {ast.unparse(v)} not dominated by its verifier")
                elif isinstance(v, ast.Call) and ast.unparse(v.func) == "_round":
                    n_round += 1
            elif isinstance(st, ast.If):
                # the guarded body must consist of the return only (no rebinding)
                if len(st.body) == 1 and isinstance(st.body[0], ast.Return):
                    walk(st.body, st.test)
                else:
                    walk(st.body, None)
                walk(st.orelse, None)
            elif isinstance(st, (ast.For, ast.While, ast.With, ast.Try)):
                for fld in ("body", "orelse", "finalbody"):
                    walk(getattr(st, fld, []) or [], None)
    walk(fn.body, None)
    return (not problems), {"problems": problems, "guarded_round_returns": n_round}


def make_identical(seq):
    def harness(h):
        R_ = h.m.svg_reuse
        T = h.m.svg_types
        d1, c1 = build(h, seq, "a")
        tol = h.real("tol")
        h.assume(tol >= fractions.Fraction(1, 10**6))
        r = R_.affine_between(T.SVGPath(d=d1), T.SVGPath(d=d1), tol)
        if not h.check(r is not None, "identical.found"):
            return [None]
        for i, v in enumerate((1, 0, 0, 1, 0, 0)):
            h.check_eq(r[i], v, f"identical.identity[{i}]")
        return list(r)

    return harness


def make_translated(seq):
    def harness(h):
        R_ = h.m.svg_reuse
        T = h.m.svg_types
        d1, c1 = build(h, seq, "a")
        dx, dy = h.real("dx"), h.real("dy")
        tol = h.real("tol")
        # tolerances below the 1e-9 snap-to-zero of _affine_callback are outside the claim
        h.assume(tol >= fractions.Fraction(1, 10**6))
        s1 = T.SVGPath(d=d1)
        # independent translation of the absolute parts
        c2 = []
        for i, (L, args) in enumerate(c1):
            if L.isupper() or i == 0:
                xs, ys = {"M": ((0,), (1,)), "L": ((0,), (1,)), "H": ((0,), ()), "V": ((), (0,)), "C": ((0, 2, 4), (1, 3, 5)), "S": ((0, 2), (1, 3)), "Q": ((0, 2), (1, 3)), "T": ((0,), (1,)), "A": ((5,), (6,)), "Z": ((), ())}[L.upper()]
                a = list(args)
                for j in xs:
                    a[j] = a[j] + dx
                for j in ys:
                    a[j] = a[j] + dy
                c2.append((L, tuple(a)))
            else:
                c2.append((L, args))
        d2 = " ".join(L + " ".join(str(v) if h.symbolic else (repr(v) if isinstance(v, float) else str(v)) for v in a) for L, a in c2)
        try:
            r = R_.affine_between(s1, T.SVGPath(d=d2), tol)
        except (ZeroDivisionError, ValueError, AssertionError) as ex:
            h.check(False, "translated.raised", detail=type(ex).__name__)
            return ["raised"]
        if not h.check(r is not None, "translated.found"):
            return [None]
        sound(h, tuple(r), c1, c2, tol, "translated.sound")
        return list(r)

    return harness


def h_lemma(h):
    """SVGShape.almost_equals (the source function, forked per argument) decides
    exactly 'same commands and every argument within tol'.  This is both a
    property clause (the final comparison every reported transform rests on) and
    the justification of the merged evaluation used in the other cases."""
    T = h.m.svg_types
    seq = h.pick(["Ml", "Mcz", "MlL", "Mq", "MA"], "seq")
    seq2 = h.pick(["same", "Ml", "Mz", "swapcase_all", "swapcase_last", "swapcase_first"], "seq2")
    d1, c1 = build(h, seq, "a")
    other = {
        "same": seq,
        "swapcase_all": seq[0] + seq[1:].swapcase(),  # same letters up to case: a different outline
        "swapcase_last": seq[:-1] + seq[-1].swapcase(),
        "swapcase_first": seq[0].swapcase() + seq[1:],
    }.get(seq2, seq2)
    d2, c2 = build(h, other, "b")
    tol = h.real("tol")
    p, q = T.SVGPath(d=d1), T.SVGPath(d=d2)
    orig = getattr(T.SVGShape, "_orig_almost_equals", T.SVGShape.almost_equals)
    r1 = bool(orig(p, q, tol))
    same_struct = [c for c, _ in c1] == [c for c, _ in c2]
    if not same_struct:
        h.check(r1 is False, "almost_equals.different_commands_never_equal")
        return [r1]
    within = h.and_(*[h.close(x, y, tol) for (_, a), (_, b) in zip(c1, c2) for x, y in zip(a, b)])
    if r1:
        h.check(within, "almost_equals.true_implies_all_within_tol")
    else:
        h.check(h.not_(within), "almost_equals.false_implies_some_beyond_tol")
    if h.symbolic:
        r2 = bool(T.SVGShape.almost_equals(p, q, tol))
        h.check(r1 == r2, "lemma.almost_equals_merged")
    return [r1]


def cases(tier, seed):
    cs = [{"kind": "lemma"}, {"kind": "structure"}]
    seqs = ["M"] + ["M" + a for a in LETTERS_FULL]
    seqs += ["M" + a + b for a in LETTERS_FULL for b in LETTERS_FULL]
    if tier != "quick":
        seqs += ["M" + a + b + c for a in LETTERS_FULL for b in "lhcqtzSA" for c in "lLczTa"]
    for s in seqs:
        cs.append({"kind": "try_affine", "seq": s})
        cs.append({"kind": "identity_return", "seq": s})
        if s in ("M", "Ml", "Mc") or (tier != "quick" and len(s) <= 2):
            # _round's logic does not depend on the shape: few skeletons suffice
            cs.append({"kind": "round", "seq": s})
        if len(s) <= 2 or tier != "quick":
            cs.append({"kind": "identical", "seq": s})
            cs.append({"kind": "translated", "seq": s})
    return cs


def case_cost(case):
    return len(case.get("seq", "")) * (3 if case["kind"] in ("try_affine", "round") else 1)


def harness_for(case):
    if case["kind"] == "lemma":
        return h_lemma
    return {
        "try_affine": make_try_affine,
        "round": make_round,
        "identity_return": make_identity_return,
        "identical": make_identical,
        "translated": make_translated,
    }[case["kind"]](case["seq"])


def run_case(case, tier):
    m = c20_mods()
    if case["kind"] == "structure":
        ok, info = structure_check()
        res = {
            "paths": 1, "queries": 0, "solver_s": 0.0, "checks": 1, "unknown_check": 0, "failures": [], "inconclusive": [],
            "validated": 0, "nontrivial": 1, "vacuity_twins": 0, "vacuity_twins_violated": 0, "functions": [],
            "sample": {"affine_between_return_structure": info}, "extra": {},
        }
        if not ok:
            # the modular argument (verifier + dominance) no longer applies
            res["inconclusive"].append(f"affine_between no longer has the verified-return structure: {info}")
        return res
    opts = {"snap_cut": True, "axioms": (), "branch_ms": 1500}
    if case["kind"] == "round":
        opts["round_integral"] = True
    return common.run_symbolic(
        harness_for(case),
        mods_=m,
        timeout_ms=15000 if tier == "quick" else 60000,
        opts=opts,
        validate_every=15,
        trace_first=1,
        compare_obs=False,
        max_paths=4000,
        allowed=(ZeroDivisionError, ValueError, AssertionError),
    )


def finding_key(case, failure):
    return {"kind": case["kind"], "label": failure["label"], "seq": case.get("seq", "")}


def replay(case, failure):
    if case["kind"] == "lemma" and failure["label"].startswith("lemma."):
        return {"reproduced": False, "detail": "lemma about the loader's own stub: harness error"}
    return replay_concrete(harness_for(case), failure, allowed_exceptions=(ZeroDivisionError, ValueError, AssertionError))


def describe(tier):
    return {
        "explanation": (
            "Symbolic execution of svg_reuse.affine_between with _affine_friendly, _first_move, _vectors, _farthest, _nth_vector, "
            "_affine_vec2vec, _first_significant(_for_both), _affine_callback, _apply_affine, _try_affine, _round and "
            "SVGShape.almost_equals over common letter skeletons; all coordinates of both shapes and the tolerance are z3 reals, "
            "atan2/hypot/sqrt/sin/cos uninterpreted.  Soundness: every non-None result R satisfies 'R applied independently to "
            "s1 == s2 within tol, command for command' (SMT validity under the path condition).  Completeness clauses: identical "
            "shapes give the identity; an exactly translated copy is always matched."
        ),
        "bounds": {
            "skeleton": "M + k letters over l,h,v,c,s,q,t,z,a (both cases): k<=2 full" + ("" if tier == "quick" else ", k=3 over a sub-alphabet") + "; _round on 3 skeletons (its logic is shape independent); identical/translated clauses k<=1 (quick) / all",
            "numbers": "all coordinates of s1 and s2 and tolerance>0: every real",
        },
        "outside": [
            "arc radii under the transform (the implementation's documented approximation); arcs are checked for end points and flags, rotation fixed to 0",
            "numeric values of atan2/sin/cos (uninterpreted); floats as reals",
            "the 1e-9 snap band of relative() (assumed empty; C09)",
            "no claim that a transform is found whenever one exists (only identical / translated copies)",
        ],
        "stubs": c20_mods().stubs,
        "assumptions": ["floats modelled as exact reals", "round contract", "sin^2+cos^2=1, hypot/sqrt definitions"],
    }
