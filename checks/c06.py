"""C06 - rewritten gradients assign the same colour to every point of their shapes.

topicosvg on gradient templates; for every painted shape the oracle compares the
"point u of gradient space has parameter t" relation of the source gradient
(resolved through href, units, gradientTransform, bounding box and CTM per the
SVG text) with that of the output gradient the converted path references:

  for all u, u', t:  M_src u = M_out u'  and  Rel_src(u, t)  =>  Rel_out(u', t)

(linear: (u-p1).(p2-p1) = t |p2-p1|^2 ; radial: |u-(f+t(c-f))|^2 = (fr+t(r-fr))^2).
`round` is the identity in this harness (the property allows 6-decimal rounding).
"""
import math
import re

import z3

from checks.pipeline_common import doc, symbols, instantiate, run_template_case, PIPE_OUTSIDE, NAME_RE
from sx import common, pipeline
from sx import fake_pathops as FP
from sx.dual import replay_concrete
from sx.spec import render as R
from sx.values import SymReal, SymBool, term_of

PROPERTY = "C06"
XLINK = "{http://www.w3.org/1999/xlink}href"
NS = "{http://www.w3.org/2000/svg}"

RECT = '<rect id="{sid}" x="{x1}" y="{y1}" width="{w1}" height="{h1}" fill="url(#{gid})"{extra}/>'


def rect(sid="s1", gid="g", extra="", n=1):
    return RECT.replace("{sid}", sid).replace("{gid}", gid).replace("{extra}", extra).replace("{x1}", "{x%d}" % n).replace("{y1}", "{y%d}" % n).replace("{w1}", "{w%d}" % n).replace("{h1}", "{h%d}" % n)


STOPS = '<stop offset="0" stop-color="red"/><stop offset="1" stop-color="blue"/>'
T = {}
# --- linear -------------------------------------------------------------------
T["lin_obb_translate"] = doc(f'<defs><linearGradient id="g" x1="{{gx1}}" y1="{{gy1}}" x2="{{gx2}}" y2="{{gy2}}">{STOPS}</linearGradient></defs><g transform="translate({{tx}} {{ty}})">{rect()}</g>')
T["lin_obb_scale"] = doc(f'<defs><linearGradient id="g" x1="{{gx1}}" y1="{{gy1}}" x2="{{gx2}}" y2="{{gy2}}">{STOPS}</linearGradient></defs><g transform="scale({{s1}} {{s2}})">{rect()}</g>')
T["lin_obb_defaults_matrix"] = doc(f'<defs><linearGradient id="g">{STOPS}</linearGradient></defs>{rect(extra=" transform=\'matrix({ma} {mb} {mc} {md} {me} {mf})\'")}'.replace("'", '"'))
T["lin_user_translate"] = doc(f'<defs><linearGradient id="g" gradientUnits="userSpaceOnUse" x1="{{gx1}}" y1="{{gy1}}" x2="{{gx2}}" y2="{{gy2}}">{STOPS}</linearGradient></defs><g transform="translate({{tx}} {{ty}})">{rect()}</g>')
T["lin_user_gt_matrix"] = doc(f'<defs><linearGradient id="g" gradientUnits="userSpaceOnUse" x1="{{gx1}}" y1="{{gy1}}" x2="{{gx2}}" y2="{{gy2}}" gradientTransform="matrix({{na}} {{nb}} {{nc}} {{nd}} {{ne}} {{nf}})">{STOPS}</linearGradient></defs><g transform="scale({{s1}} {{s2}})">{rect()}</g>')
T["lin_obb_gt_translate_untransformed"] = doc(f'<defs><linearGradient id="g" x1="{{gx1}}" y1="{{gy1}}" x2="{{gx2}}" y2="{{gy2}}" gradientTransform="translate({{tx}} {{ty}})">{STOPS}</linearGradient></defs>{rect()}')
T["lin_user_gt_untransformed"] = doc(f'<defs><linearGradient id="g" gradientUnits="userSpaceOnUse" x1="{{gx1}}" y1="{{gy1}}" x2="{{gx2}}" y2="{{gy2}}" gradientTransform="matrix({{na}} {{nb}} {{nc}} {{nd}} {{ne}} {{nf}})">{STOPS}</linearGradient></defs>{rect()}')
T["lin_percent_obb"] = doc(f'<defs><linearGradient id="g" x1="{{gx1}}%" y1="{{gy1}}%" x2="{{gx2}}%" y2="{{gy2}}%">{STOPS}</linearGradient></defs><g transform="translate({{tx}} {{ty}})">{rect()}</g>')
T["lin_percent_user"] = doc(f'<defs><linearGradient id="g" gradientUnits="userSpaceOnUse" x1="{{gx1}}%" y1="{{gy1}}" x2="{{gx2}}%" y2="{{gy2}}%">{STOPS}</linearGradient></defs><g transform="scale({{s1}})">{rect()}</g>')
T["lin_shared_two_shapes"] = doc(f'<defs><linearGradient id="g" x1="{{gx1}}" y1="{{gy1}}" x2="{{gx2}}" y2="{{gy2}}">{STOPS}</linearGradient></defs><g transform="translate({{tx}} {{ty}})">{rect()}</g>{rect("s2", n=2)}')
T["lin_two_level_transform"] = doc(f'<defs><linearGradient id="g" x1="{{gx1}}" y1="{{gy1}}" x2="{{gx2}}" y2="{{gy2}}" gradientTransform="scale({{s3}})">{STOPS}</linearGradient></defs><g transform="translate({{tx}} {{ty}})"><g transform="scale({{s1}} {{s2}})">{rect()}</g></g>')
T["lin_spread_reflect"] = doc(f'<defs><linearGradient id="g" spreadMethod="reflect" x1="{{gx1}}" y1="{{gy1}}" x2="{{gx2}}" y2="{{gy2}}">{STOPS}</linearGradient></defs><g transform="translate({{tx}})">{rect()}</g>')
# --- href templates ---------------------------------------------------------------
T["href_stops_only"] = doc(f'<defs><linearGradient id="t">{STOPS}</linearGradient><linearGradient id="g" xlink:href="#t" x1="{{gx1}}" y1="{{gy1}}" x2="{{gx2}}" y2="{{gy2}}"/></defs><g transform="translate({{tx}} {{ty}})">{rect()}</g>')
T["href_attrs_and_stops"] = doc(f'<defs><linearGradient id="t" gradientUnits="userSpaceOnUse" x1="{{gx1}}" y1="{{gy1}}" gradientTransform="translate({{ne}} {{nf}})">{STOPS}</linearGradient><linearGradient id="g" xlink:href="#t" x2="{{gx2}}" y2="{{gy2}}"/></defs><g transform="scale({{s1}})">{rect()}</g>')
T["href_chain_two"] = doc(f'<defs><linearGradient id="t2" x1="{{gx1}}">{STOPS}</linearGradient><linearGradient id="t" xlink:href="#t2" y1="{{gy1}}"/><linearGradient id="g" xlink:href="#t" x2="{{gx2}}" y2="{{gy2}}"/></defs><g transform="translate({{tx}} {{ty}})">{rect()}</g>')
T["href_chain_mid_has_stops"] = doc(f'<defs><linearGradient id="t2" gradientUnits="userSpaceOnUse" spreadMethod="reflect" x1="{{gx1}}" y1="{{gy1}}"><stop offset="0" stop-color="green"/></linearGradient><linearGradient id="t" xlink:href="#t2" x2="{{gx2}}">{STOPS}</linearGradient><linearGradient id="g" xlink:href="#t" y2="{{gy2}}"/></defs><g transform="translate({{tx}} {{ty}})">{rect()}</g>')
T["href_chain_mid_has_stops_untransformed"] = doc(f'<defs><linearGradient id="t2" gradientUnits="userSpaceOnUse" x1="{{gx1}}" gradientTransform="translate({{ne}} {{nf}})"><stop offset="0" stop-color="green"/></linearGradient><linearGradient id="t" xlink:href="#t2" x2="{{gx2}}">{STOPS}</linearGradient><linearGradient id="g" xlink:href="#t" y2="{{gy2}}"/></defs>{rect()}')
T["lin_obb_two_shapes_one_group"] = doc(f'<defs><linearGradient id="g" x1="{{gx1}}" y1="{{gy1}}" x2="{{gx2}}" y2="{{gy2}}">{STOPS}</linearGradient></defs><g transform="translate({{tx}} {{ty}})">{rect()}{rect("s2", n=2)}</g>')
T["rad_obb_two_shapes_same_transform"] = doc(f'<defs><radialGradient id="g" cx="{{gx1}}" cy="{{gy1}}" r="{{r1}}">{STOPS}</radialGradient></defs>' + rect(extra=' transform="scale({s1} {s2})"') + rect("s2", n=2, extra=' transform="scale({s1} {s2})"'))
T["href_untransformed"] = doc(f'<defs><linearGradient id="t" x1="{{gx1}}" y1="{{gy1}}">{STOPS}</linearGradient><linearGradient id="g" xlink:href="#t" x2="{{gx2}}" y2="{{gy2}}"/></defs>{rect()}')
T["href_own_stops_win"] = doc(f'<defs><linearGradient id="t" x1="{{gx1}}"><stop offset="0" stop-color="green"/></linearGradient><linearGradient id="g" xlink:href="#t" x2="{{gx2}}">{STOPS}</linearGradient></defs><g transform="translate({{tx}})">{rect()}</g>')
# --- radial -----------------------------------------------------------------------
T["rad_obb_translate"] = doc(f'<defs><radialGradient id="g" cx="{{gx1}}" cy="{{gy1}}" r="{{r1}}">{STOPS}</radialGradient></defs><g transform="translate({{tx}} {{ty}})">{rect()}</g>')
T["rad_obb_scale"] = doc(f'<defs><radialGradient id="g" cx="{{gx1}}" cy="{{gy1}}" r="{{r1}}">{STOPS}</radialGradient></defs><g transform="scale({{s1}} {{s2}})">{rect()}</g>')
T["rad_user_focal"] = doc(f'<defs><radialGradient id="g" gradientUnits="userSpaceOnUse" cx="{{gx1}}" cy="{{gy1}}" r="{{r1}}" fx="{{gx2}}" fy="{{gy2}}">{STOPS}</radialGradient></defs><g transform="translate({{tx}} {{ty}})">{rect()}</g>')
T["rad_user_fx_only_fr"] = doc(f'<defs><radialGradient id="g" gradientUnits="userSpaceOnUse" cx="{{gx1}}" cy="{{gy1}}" r="{{r1}}" fx="{{gx2}}" fr="{{r2}}">{STOPS}</radialGradient></defs><g transform="scale({{s1}})">{rect()}</g>')
T["rad_user_gt_untransformed"] = doc(f'<defs><radialGradient id="g" gradientUnits="userSpaceOnUse" cx="{{gx1}}" cy="{{gy1}}" r="{{r1}}" gradientTransform="matrix({{na}} {{nb}} {{nc}} {{nd}} {{ne}} {{nf}})">{STOPS}</radialGradient></defs>{rect()}')
T["rad_defaults_matrix"] = doc(f'<defs><radialGradient id="g">{STOPS}</radialGradient></defs>{rect(extra=" transform=\'matrix({ma} {mb} {mc} {md} {me} {mf})\'")}'.replace("'", '"'))
T["rad_percent_user"] = doc(f'<defs><radialGradient id="g" gradientUnits="userSpaceOnUse" cx="{{gx1}}%" cy="{{gy1}}%" r="{{r1}}%">{STOPS}</radialGradient></defs><g transform="translate({{tx}} {{ty}})">{rect()}</g>')
T["rad_href_linear_template_stops"] = doc(f'<defs><linearGradient id="t">{STOPS}</linearGradient><radialGradient id="g" xlink:href="#t" cx="{{gx1}}" cy="{{gy1}}" r="{{r1}}"/></defs><g transform="translate({{tx}} {{ty}})">{rect()}</g>')


# fully symbolic 6-entry matrices on both the gradient and the shape make the polynomial queries
# slow (10-20 min per template): thorough tier only; quick uses the same structures with a
# concrete linear part and symbolic translations
HEAVY = ("lin_user_gt_matrix", "rad_defaults_matrix", "lin_obb_defaults_matrix")
THOROUGH = {k: T.pop(k) for k in HEAVY}
T["lin_user_gt_matrix_light"] = doc(f'<defs><linearGradient id="g" gradientUnits="userSpaceOnUse" x1="{{gx1}}" y1="{{gy1}}" x2="{{gx2}}" y2="{{gy2}}" gradientTransform="matrix(2 1 -1 3 {{ne}} {{nf}})">{STOPS}</linearGradient></defs><g transform="scale({{s1}} {{s2}})">{rect()}</g>')
T["rad_defaults_matrix_light"] = doc(f'<defs><radialGradient id="g">{STOPS}</radialGradient></defs>' + rect(extra=' transform="matrix(2 1 -1 3 {me} {mf})"'))
T["lin_obb_defaults_matrix_light"] = doc(f'<defs><linearGradient id="g">{STOPS}</linearGradient></defs>' + rect(extra=' transform="matrix(0 2 -3 0 {me} {mf})"'))
T["lin_obb_rotate"] = doc(f'<defs><linearGradient id="g" x1="{{gx1}}" y1="{{gy1}}" x2="{{gx2}}" y2="{{gy2}}">{STOPS}</linearGradient></defs><g transform="rotate({{a1}})">{rect()}</g>')


T["lin_percent_user_nonsquare_viewbox"] = (
    '<svg xmlns="http://www.w3.org/2000/svg" xmlns:xlink="http://www.w3.org/1999/xlink" viewBox="0 0 200 80">'
    f'<defs><linearGradient id="g" gradientUnits="userSpaceOnUse" x1="{{gx1}}%" y1="{{gy1}}%" x2="{{gx2}}%" y2="{{gy2}}%">{STOPS}</linearGradient></defs>'
    f'<g transform="translate({{tx}} {{ty}})">{rect()}</g></svg>'
)
T["rad_percent_user_nonsquare_viewbox"] = (
    '<svg xmlns="http://www.w3.org/2000/svg" xmlns:xlink="http://www.w3.org/1999/xlink" viewBox="10 20 200 80">'
    f'<defs><radialGradient id="g" gradientUnits="userSpaceOnUse" cx="{{gx1}}%" cy="{{gy1}}%" r="{{r1}}%" fx="{{gx2}}%" fy="{{gy2}}%">{STOPS}</radialGradient></defs>'
    f'<g transform="translate({{tx}} {{ty}})">{rect()}</g></svg>'
)
for _k in ("lin_obb_rotate", "rad_defaults_matrix_light"):
    THOROUGH[_k] = T.pop(_k)
T["rad_defaults_scale_matrix"] = doc(f'<defs><radialGradient id="g">{STOPS}</radialGradient></defs>' + rect(extra=' transform="matrix(2 0 0 3 {me} {mf})"'))


THOROUGH["rad_obb_two_shapes_same_transform"] = T.pop("rad_obb_two_shapes_same_transform")  # ~4 min


def templates(tier):
    t = dict(T)
    if tier != "quick":
        t.update(THOROUGH)
    return t


# ------------------------------------------------------------------ gradient spec
LIN_DEF = {"x1": "0%", "y1": "0%", "x2": "100%", "y2": "0%"}
RAD_DEF = {"cx": "50%", "cy": "50%", "r": "50%", "fr": "0%"}


def resolve(by_id, el):
    """effective attributes and stops through the href chain (SVG 2 13.2.3 templates)"""
    attrs = {k: v for k, v in el.attrib.items() if k != XLINK and k != "href"}
    stops = [dict(s.attrib) for s in el if isinstance(s.tag, str) and s.tag == NS + "stop"]
    href = el.get(XLINK) or el.get("href")
    seen = 0
    while href and seen < 8:
        seen += 1
        tpl = by_id.get(href.lstrip("#").strip())
        if tpl is None:
            break
        for k, v in tpl.attrib.items():
            if k in (XLINK, "href", "id"):
                continue
            own_kind = R.local(el.tag)
            allowed = {"gradientUnits", "gradientTransform", "spreadMethod"} | (
                {"x1", "y1", "x2", "y2"} if own_kind == "linearGradient" else {"cx", "cy", "r", "fx", "fy", "fr"}
            )
            if k in allowed and k not in attrs:
                attrs[k] = v
        if not stops:
            stops = [{k: v for k, v in s.attrib.items() if k != "id"} for s in tpl if isinstance(s.tag, str) and s.tag == NS + "stop"]
        href = tpl.get(XLINK) or tpl.get("href")
    return attrs, stops


def grad_params(spec, kind, attrs, viewport):
    """numbers of the gradient in its own coordinate space"""
    units = attrs.get("gradientUnits", "objectBoundingBox")
    if units == "userSpaceOnUse":
        sw, sh = viewport[2], viewport[3]
        if isinstance(sw, (int, float)) and isinstance(sh, (int, float)):
            sd = math.hypot(sw, sh) / math.sqrt(2)
        else:
            raise R.Unsupported("symbolic viewport diagonal")
    else:
        sw = sh = sd = 1

    def val(name, default, scale):
        s = attrs.get(name, default)
        if s.strip().endswith("%"):
            return spec.num(s.strip()[:-1]) / 100 * scale
        return spec.num(s)

    if kind == "linearGradient":
        p = {k: val(k, LIN_DEF[k], sw if k[0] == "x" else sh) for k in LIN_DEF}
    else:
        p = {"cx": val("cx", "50%", sw), "cy": val("cy", "50%", sh), "r": val("r", "50%", sd), "fr": val("fr", "0%", sd)}
        p["fx"] = val("fx", None, sw) if "fx" in attrs else p["cx"]
        p["fy"] = val("fy", None, sh) if "fy" in attrs else p["cy"]
    return units, spec.parse_transform(attrs.get("gradientTransform")), p


def rel(h, kind, p, u, t):
    """'point u of gradient space has parameter t' (polynomial)"""
    if kind == "linearGradient":
        dx, dy = p["x2"] - p["x1"], p["y2"] - p["y1"]
        return h.eq((u[0] - p["x1"]) * dx + (u[1] - p["y1"]) * dy, t * (dx * dx + dy * dy))
    cxt = p["fx"] + t * (p["cx"] - p["fx"])
    cyt = p["fy"] + t * (p["cy"] - p["fy"])
    rt = p["fr"] + t * (p["r"] - p["fr"])
    ex, ey = u[0] - cxt, u[1] - cyt
    return h.eq(ex * ex + ey * ey, rt * rt)


def ancestors_ctm(spec, el):
    chain = []
    e = el
    while e is not None:
        chain.append(e)
        e = e.getparent()
    m = spec.I
    for e in reversed(chain):
        if R.local(e.tag) in ("g", "rect", "path", "polygon"):
            m = spec.mul(m, spec.parse_transform(e.get("transform")))
    return m


def bbox_matrix(bb):
    x, y, w, hh = bb
    return (w, 0, 0, hh, x, y)


def make_harness(template):
    def harness(h):
        S = h.m.svg
        vals = symbols(h, template)
        for k in ("ma", "na"):
            if all((k[0] + c) in vals for c in "abcd"):
                a, b, c, d = (vals[k[0] + x] for x in "abcd")
                h.assume(h.not_(h.eq(a * d - b * c, 0)))
        src = instantiate(h, template, vals)
        try:
            out = S.SVG.fromstring(src).topicosvg().tostring()
        except (ZeroDivisionError, AssertionError) as e:
            h.tag("raised:" + type(e).__name__)
            return ["raised"]
        spec = pipeline.make_spec(h)
        sroot, oroot = pipeline.parse_xml(src), pipeline.parse_xml(out)
        s_by_id = {e.get("id"): e for e in sroot.iter() if isinstance(e.tag, str) and e.get("id")}
        o_by_id = {e.get("id"): e for e in oroot.iter() if isinstance(e.tag, str) and e.get("id")}
        viewport = [float(v) for v in re.split(r"[\s,]+", sroot.get("viewBox").strip())]
        obs = []
        for sid, sel in s_by_id.items():
            if not sid.startswith("s"):
                continue
            oel = o_by_id.get(sid)
            ctm = ancestors_ctm(spec, sel)
            det = ctm[0] * ctm[3] - ctm[1] * ctm[2]
            if h.is_true(h.le(h.abs(det), 2.220446049250313e-16)):
                h.tag("singular-ctm")
                continue  # (numerically) singular transform: the shape collapses, nothing to colour
            if not h.check(oel is not None, "shape_survives", detail=sid):
                continue
            m_fill = re.match(r"url\(#([^)]+)\)", oel.get("fill") or "")
            if not h.check(bool(m_fill) and m_fill.group(1) in o_by_id, "output_paint_reference_resolves", detail=oel.get("fill")):
                continue
            og = o_by_id[m_fill.group(1)]
            sg = s_by_id[re.match(r"url\(#([^)]+)\)", sel.get("fill")).group(1)]
            kind = R.local(sg.tag)
            h.check(R.local(og.tag) == kind, "gradient_kind_preserved")
            # ---- self-contained output gradient
            h.check(og.get(XLINK) is None and og.get("href") is None, "output_gradient_has_no_href")
            h.check(not any("%" in (v or "") for k, v in og.attrib.items() if k not in ("id",)), "output_gradient_plain_numbers", detail=dict(og.attrib))
            sattrs, sstops = resolve(s_by_id, sg)
            ostops = [dict(s.attrib) for s in og if isinstance(s.tag, str)]
            h.check(ostops == sstops, "output_gradient_own_stops", detail=(ostops, sstops))
            h.check((og.get("spreadMethod") or "pad") == sattrs.get("spreadMethod", "pad"), "spread_method_preserved")
            # ---- colour relation
            try:
                su, sG, sp = grad_params(spec, kind, sattrs, viewport)
                ou, oG, op = grad_params(spec, kind, dict(og.attrib), viewport)
            except R.Unsupported as e:
                h.check(False, "oracle_unsupported", detail=str(e))
                continue
            bb = (spec.num(sel.get("x")), spec.num(sel.get("y")), spec.num(sel.get("width")), spec.num(sel.get("height")))
            m_src = spec.mul(ctm, spec.mul(bbox_matrix(bb), sG) if su == "objectBoundingBox" else sG)
            # output path: geometry already transformed, no transform attribute may remain
            h.check(oel.get("transform") is None, "output_path_has_no_transform")
            if ou == "objectBoundingBox":
                # bounding box of the OUTPUT geometry = CTM image of the source box; only an
                # axis-aligned image keeps being a box: require an untransformed shape
                ident = h.and_(*[h.eq(v, w) for v, w in zip(ctm, spec.I)])
                if not h.is_true(ident):
                    h.check(False, "objectBoundingBox_kept_only_for_untransformed_shapes")
                    continue
                m_out = spec.mul(bbox_matrix(bb), oG)
            else:
                m_out = oG
            if h.symbolic:
                u = (SymReal(z3.Real("u_x")), SymReal(z3.Real("u_y")))
                u2 = (SymReal(z3.Real("v_x")), SymReal(z3.Real("v_y")))
                t = SymReal(z3.Real("t_par"))
                P, P2 = spec.apply(m_src, u), spec.apply(m_out, u2)
                hyp = h.and_(h.eq(P[0], P2[0]), h.eq(P[1], P2[1]), rel(h, kind, sp, u, t))
                h.check(h.implies(hyp, rel(h, kind, op, u2, t)), "same_colour_parameter_at_every_point")
            else:
                _concrete_colour_check(h, spec, kind, m_src, sp, m_out, op)
            obs.append(kind)
        return obs

    return harness


def _concrete_colour_check(h, spec, kind, m_src, sp, m_out, op):
    """sample gradient-space points u with known t, map to the output's gradient space, compare t"""

    def inv(m):
        a, b, c, d, e, f = [float(v) for v in m]
        det = a * d - b * c
        return (d / det, -b / det, -c / det, a / det, (c * f - d * e) / det, (b * e - a * f) / det)

    try:
        mi = inv(m_out)
    except ZeroDivisionError:
        return h.check(True, "same_colour_parameter_at_every_point")
    bad = 0
    n = 0
    for tt in (0.0, 0.25, 0.6, 1.0, 1.7):
        for k in range(6):
            if kind == "linearGradient":
                dx, dy = sp["x2"] - sp["x1"], sp["y2"] - sp["y1"]
                off = (k - 2.5) * 0.7
                u = (sp["x1"] + tt * dx - off * dy, sp["y1"] + tt * dy + off * dx)
            else:
                ang = 0.3 + k * 1.01
                rt = sp["fr"] + tt * (sp["r"] - sp["fr"])
                u = (sp["fx"] + tt * (sp["cx"] - sp["fx"]) + rt * math.cos(ang), sp["fy"] + tt * (sp["cy"] - sp["fy"]) + rt * math.sin(ang))
            P = spec.apply(m_src, u)
            u2 = spec.apply(mi, P)
            n += 1
            if kind == "linearGradient":
                dx, dy = op["x2"] - op["x1"], op["y2"] - op["y1"]
                L = dx * dx + dy * dy
                if L == 0:
                    continue
                t2 = ((u2[0] - op["x1"]) * dx + (u2[1] - op["y1"]) * dy) / L
                if abs(t2 - tt) > 1e-4 * (1 + abs(tt)):
                    bad += 1
            else:
                cxt = op["fx"] + tt * (op["cx"] - op["fx"])
                cyt = op["fy"] + tt * (op["cy"] - op["fy"])
                rt = op["fr"] + tt * (op["r"] - op["fr"])
                d = math.hypot(u2[0] - cxt, u2[1] - cyt)
                if abs(d - abs(rt)) > 1e-4 * (1 + abs(rt) + d):
                    bad += 1
    return h.check(bad == 0, "same_colour_parameter_at_every_point", detail={"bad": bad, "of": n})


def cases(tier, seed):
    return [{"template": k} for k in templates(tier)]


def harness_for(case):
    return make_harness(templates("thorough")[case["template"]])


def run_case(case, tier):
    return run_template_case(harness_for(case), tier, opts={"nlsat_ms": 15000, "tol_cut": True}, max_paths=400)


def finding_key(case, failure):
    return {"template": case["template"], "label": failure["label"]}


def replay(case, failure):
    return replay_concrete(harness_for(case), failure, allowed_exceptions=(ValueError, ZeroDivisionError, AssertionError))


def describe(tier):
    return {
        "explanation": (
            "topicosvg on gradient templates (linear/radial, both gradientUnits, numbers and percentages, gradientTransform, "
            "spreadMethod, href chains of length 0-2 contributing attributes and/or stops, fx/fy/fr given or linked) applied to a "
            "rectangle with symbolic position/size under symbolic ancestor transforms.  Executes _apply_gradient_template, "
            "_transformed_gradient, as_user_space_units, _apply_gradient_translation, decompose_translation, the gradient "
            "dataclasses' from_element / to_element, _add_to_defs, _new_id.  Oracle: for all points and parameters the source's "
            "'point has parameter t' relation implies the output's (polynomial SMT validity per path); output gradients are "
            "self-contained (no href, plain numbers, own stops, resolving id, same spreadMethod)."
        ),
        "bounds": {"templates": sorted(templates(tier)), "numbers": "gradient coordinates/radii, gradientTransform entries, ancestor transforms, rect position and size (w,h>0): all reals; viewBox fixed 0 0 100 100"},
        "outside": PIPE_OUTSIDE + ["the default 1e-9 almost_equal band inside decompose_translation (assumed empty: a translation smaller than 1e-9 is dropped by the code)", "the size of the 6-decimal rounding of gradient parameters (round is the identity here)", "bounding boxes of non-rectangular or clipped/stroked shapes (property scope)", "stop elements' own normalisation"],
        "stubs": common.mods().stubs + FP.CONTRACT,
        "assumptions": FP.CONTRACT + ["floats as reals"],
    }
