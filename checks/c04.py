"""C04 - strokes are rendered into equivalent filled outlines drawn above the fill
(bookkeeping decided; the outline geometry itself is Skia's: not applicable)."""
import itertools

from checks.pipeline_common import replay_render, doc, make_render_harness, run_template_case, PIPE_OUTSIDE
from sx import common
from sx import fake_pathops as FP

PROPERTY = "C04"

LINE = '<path d="M{x1},{y1} L{x2},{y2} L{x3},{y3}"{attrs}/>'
CLOSED = '<rect x="{x1}" y="{y1}" width="{w1}" height="{h1}"{attrs}/>'
TWO = '<path d="M{x1},{y1} L{x2},{y2} M{x3},{y3} l{x4},{y4} z"{attrs}/>'
PLINE = '<polyline points="{x1},{y1} {x2},{y2} {x3},{y3}"{attrs}/>'


def S(shape, attrs):
    return shape.replace("{attrs}", " " + attrs if attrs else "")


T = {}
T["basic_open"] = doc(S(LINE, 'fill="none" stroke="red" stroke-width="{s1}"'))
T["basic_closed_fill_and_stroke"] = doc(S(CLOSED, 'fill="blue" stroke="red" stroke-width="{s1}"'))
T["default_width"] = doc(S(LINE, 'fill="none" stroke="red"'))
for cap, join in itertools.product(("butt", "round", "square"), ("miter", "round", "bevel")):
    T[f"cap_{cap}_join_{join}"] = doc(S(LINE, f'fill="none" stroke="red" stroke-width="{{s1}}" stroke-linecap="{cap}" stroke-linejoin="{join}" stroke-miterlimit="{{r1}}"'))
T["dash_even_commas"] = doc(S(LINE, 'fill="none" stroke="red" stroke-width="{s1}" stroke-dasharray="{r1},{r2}" stroke-dashoffset="{d1}"'))
T["dash_odd_spaces"] = doc(S(LINE, 'fill="none" stroke="red" stroke-width="{s1}" stroke-dasharray="{r1} {r2} {r3}"'))
T["dash_single"] = doc(S(TWO, 'fill="none" stroke="red" stroke-width="{s1}" stroke-dasharray="{r1}"'))
T["dash_comma_space"] = doc(S(LINE, 'fill="none" stroke="red" stroke-dasharray="{r1}, {r2}"'))
T["inherited_from_group"] = doc('<g stroke="red" stroke-width="{s1}" stroke-linecap="round" fill="none">' + S(LINE, "") + S(PLINE, 'stroke-width="{s2}"') + "</g>")
T["style_stroke"] = doc(S(LINE, 'style="fill:none;stroke:red;stroke-width:{s1};stroke-linejoin:bevel"'))
T["style_beats_attr"] = doc(S(LINE, 'fill="none" stroke="blue" stroke-width="{s2}" style="stroke:red;stroke-width:{s1}"'))
T["under_group_transform"] = doc('<g transform="scale({s3} {s4}) translate({tx} {ty})">' + S(LINE, 'fill="none" stroke="red" stroke-width="{s1}"') + "</g>")
T["own_transform_nonuniform"] = doc(S(CLOSED, 'fill="none" stroke="red" stroke-width="{s1}" transform="matrix({s3} 0 0 {s4} {tx} {ty})"'))
T["rotate_then_stroke"] = doc('<g transform="rotate({a1})">' + S(TWO, 'fill="none" stroke="red" stroke-width="{s1}" stroke-linecap="square"') + "</g>")
T["stroke_opacity"] = doc(S(LINE, 'fill="none" stroke="red" stroke-width="{s1}" stroke-opacity="{o1}"'))
T["stroke_opacity_and_opacity_single_piece"] = doc(S(LINE, 'fill="none" stroke="red" stroke-width="{s1}" stroke-opacity="{o1}" opacity="{o2}"'))
T["fill_and_stroke_opacities_opacity1"] = doc(S(CLOSED, 'fill="blue" fill-opacity="{o1}" stroke="red" stroke-opacity="{o2}" stroke-width="{s1}"'))
T["stroke_none_with_width"] = doc(S(CLOSED, 'fill="blue" stroke="none" stroke-width="{s1}"') + S(LINE, 'fill="none" stroke="red"'))
T["stroked_shape_with_id"] = doc(S(CLOSED, 'id="a" fill="blue" stroke="red" stroke-width="{s1}"') + S(LINE, 'id="b" fill="none" stroke="green"'))
T["stroke_in_translucent_group"] = doc('<g opacity="{o1}">' + S(LINE, 'fill="none" stroke="red" stroke-width="{s1}"') + S(CLOSED, 'fill="blue"') + "</g>")
T["use_stroked"] = doc('<defs>' + S(LINE, 'id="l" fill="none"') + '</defs><use xlink:href="#l" stroke="red" stroke-width="{s1}" x="{ux}" y="{uy}"/>')
T["clipped_stroke"] = doc('<defs><clipPath id="c"><rect x="{cx1}" y="{cy1}" width="{w5}" height="{h5}"/></clipPath></defs>' + S(LINE, 'fill="none" stroke="red" stroke-width="{s1}" clip-path="url(#c)"'))
T["no_viewbox_tolerance"] = '<svg xmlns="http://www.w3.org/2000/svg" width="{w9}" height="{h9}">' + S(LINE, 'fill="none" stroke="red" stroke-width="{s1}" stroke-linecap="round"') + "</svg>"
T["viewbox_tolerance"] = '<svg xmlns="http://www.w3.org/2000/svg" viewBox="{bx} {by} {w9} {h9}">' + S(LINE, 'fill="none" stroke="red" stroke-width="{s1}" stroke-linejoin="round"') + "</svg>"


def templates(tier):
    return dict(T)


def _no_stroke_left(h, src, out, vals):
    h.check("stroke" not in out, "output_has_no_stroke_attribute")


def cases(tier, seed):
    return [{"template": k} for k in templates(tier)]


def harness_for(case):
    return make_render_harness(templates("thorough")[case["template"]], "stroke_render_equal", extra_check=_no_stroke_left)


def run_case(case, tier):
    return run_template_case(harness_for(case), tier)


def finding_key(case, failure):
    return {"template": case["template"], "label": failure["label"]}


def replay(case, failure):
    return replay_render(harness_for(case), failure)


def describe(tier):
    return {
        "explanation": (
            "topicosvg on stroked templates (cap x join, dash arrays of length 1-3 with ',' / space separators, dash offset, "
            "miterlimit, stroke given on the shape / inherited / in style, fill none or colour, under uniform and non-uniform "
            "ancestor transforms, with clip, in translucent groups, via use; viewBox given / absent).  Oracle on the paint tree: a "
            "shape with visible fill and stroke yields [fill piece, stroke piece] in that order; the stroke piece's region is "
            "Xf(Simplify(Conics2Quads(Stroke(Leaf(shape in its own coordinates), w, cap, join, miter, dashes repeated if odd, "
            "offset), tolerance)), CTM) with every parameter provably equal to the cascade value and tolerance = min(vb.w,vb.h)*0.1/100; "
            "paints and opacities o*stroke-opacity / o*fill-opacity; no stroke attribute survives."
        ),
        "bounds": {"templates": sorted(templates(tier)), "numbers": "stroke-width, miterlimit, dashes > 0, offsets, opacities in [0,1], transforms: all reals"},
        "outside": PIPE_OUTSIDE
        + [
            "NOT APPLICABLE PART: that the outline covers exactly the w/2 neighbourhood, cap/join/miter/dash geometry and the 0.25-unit accuracy: computed entirely inside Skia's stroker, no Python code of picosvg participates",
            "shapes with both fill and stroke visible and own opacity < 1 (outside the property's scope)",
        ],
        "stubs": common.mods().stubs + FP.CONTRACT,
        "assumptions": FP.CONTRACT + ["floats as reals"],
    }
