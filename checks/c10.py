"""C10 - path data parses per the SVG grammar or is rejected, and printing round-trips.

L1: every buffer of length <= n over a 40-symbol alphabet, characters symbolic
    (z3 Int code points); the real parse_svg_path runs on it with the module's own
    regexes re-implemented with Python's backtracking semantics over symbolic
    characters (compiled from the .pattern of the regex objects in the loaded
    module); oracle = independent recursive-descent recogniser of the SVG 1.1 BNF.
L2: token templates `cmd (sep num){arity*r}` with concrete letters and separators and
    symbolic number strings - glued numbers, compact arc flags, leading zeros at
    total lengths L1 cannot reach.
L3: printing: path_segment on symbolic numbers then the real parser gives back the
    same commands with provably equal arguments; every string of the shape repr(float)
    can produce (bounded length, symbolic characters) is consumed completely by the
    number regex under Python's priority semantics.
"""
import itertools

import z3

from sx import common, loader
from sx import ctx as C
from sx.dual import replay_concrete, Abort
from sx.spec import path_grammar as G
from sx.symstr import SymStr, SymPattern
from sx.values import SymReal, term_of

PROPERTY = "C10"
LETTERS = "MmZzLlHhVvCcSsQqTtAa"
ALPHABET = LETTERS + "0123456789" + "+-.eE, \t\n" + "x"
NUM_ALPHABET = "0159+-.eE"
_MODS = None


def c10_mods():
    """own load: number lexing is the subject, so no placeholder extension; the four regexes
    of svg_path_iter are wrapped so that they also accept symbolic strings"""
    global _MODS
    if _MODS is None:
        m = loader.load(fake_skia=True, lex_placeholders=False)
        spi = m.svg_path_iter
        wrapped = {}
        for name in ("_CMD_RE", "_SEPARATOR_RE", "_FLOAT_RE", "_BOOL_RE"):
            real = getattr(spi, name)
            wrapped[id(real)] = SymPattern(real)
            setattr(spi, name, wrapped[id(real)])
        spi._ARC_ARGUMENT_TYPES = tuple((conv, wrapped.get(id(rx), rx)) for conv, rx in spi._ARC_ARGUMENT_TYPES)
        m.stubs.append(
            "svg_path_iter regexes wrapped by sx.symstr.SymPattern: Python backtracking semantics over symbolic characters, "
            "compiled from the .pattern of the module's own regex objects"
        )
        loader.snapshot_state(m, names=("svg_path_iter", "svg_meta"))
        _MODS = m
    return _MODS


def num_value(v):
    if isinstance(v, SymReal):
        t = z3.simplify(v.t)
        if z3.is_rational_value(t) or z3.is_int_value(t):
            return float(C.frac_of_model_value(t))
    return v


def run_parser(h, buf, as_text):
    P = h.m.svg_path_iter
    try:
        res = list(P.parse_svg_path(buf if h.symbolic else as_text, exploded=True))
        return [(str(c), list(a)) for c, a in res], None
    except ValueError:
        return None, "ValueError"
    except C.Concretize:
        raise
    except Exception as e:  # noqa: any other exception type is a violation
        return None, type(e).__name__


def compare(h, buf, as_text):
    got, err = run_parser(h, buf, as_text)
    if not h.check(err in (None, "ValueError"), "only_ValueError_escapes", detail=(err, as_text)):
        return ["other-exception"]
    want = G.recognise(buf)
    if want is None:
        h.tag("not-in-grammar")
        return ["not-in-grammar", err]
    if err == "ValueError":
        h.tag("conforming-rejected")
        return ["rejected"]
    h.tag("conforming-parsed")
    ok = len(got) == len(want) and all(g[0] == w[0] and len(g[1]) == len(w[1]) for g, w in zip(got, want))
    if not h.check(ok, "conforming_string_parses_to_the_grammar_sequence.structure", detail=(as_text, [(c, len(a)) for c, a in got][:6], [(c, len(a)) for c, a in want][:6])):
        return ["structure"]
    conds = []
    for (gc, ga), (wc, wa) in zip(got, want):
        for x, y in zip(ga, wa):
            if h.symbolic:
                conds.append(h.eq(x, y))
            else:
                conds.append(abs(float(x) - float(num_value(y))) <= 1e-12 * (1 + abs(float(x))))
    if conds:
        h.check(h.and_(*conds) if h.symbolic else all(conds), "conforming_string_parses_to_the_grammar_sequence.numbers", detail=as_text)
    return ["parsed", len(got)]


# ------------------------------------------------------------------ L1
def make_l1(n, first):
    def harness(h):
        if h.symbolic:
            h.ctx.opts["alphabet"] = ALPHABET
            rest = SymStr.fresh("b", n - 1, ALPHABET) if n > 1 else SymStr([])
            buf = SymStr([ord(first)]) + rest if n >= 1 else SymStr([])
            text = None
        else:
            chars = [first] + [chr(int(h.real(f"b!{i}"))) for i in range(n - 1)] if n >= 1 else []
            text = "".join(chars)
            buf = SymStr([ord(c) for c in text])
        return compare(h, buf, text)

    return harness


# ------------------------------------------------------------------ L2
SEPS = ["", ",", " ", ", ", "\t", " ,"]


def make_l2(letters, reps, numlen, sepstyle):
    """`M0,0` (concrete) + letter + symbolic number strings; for M/m the letter itself starts the path"""

    def harness(h):
        if h.symbolic:
            h.ctx.opts["alphabet"] = ALPHABET
        pieces = []
        text_parts = []
        k = 0
        L = letters[-1]
        if L not in "Mm":
            pieces.append(SymStr([ord(c) for c in "M0,0"]))
            text_parts.append("M0,0")
        pieces.append(SymStr([ord(L)]))
        text_parts.append(L)
        n_args = G.ARITY[L.lower()] * reps
        for j in range(n_args):
            if j == 0:
                sep = ["", " ", ""][sepstyle % 3]
            else:
                sep = SEPS[(sepstyle + j) % len(SEPS)]
            pieces.append(SymStr([ord(c) for c in sep]))
            text_parts.append(sep)
            ln = 1 if (L.lower() == "a" and j % 7 in (3, 4)) else numlen
            if h.symbolic:
                s_ = SymStr.fresh(f"n{k}", ln, NUM_ALPHABET)
                pieces.append(s_)
                text_parts.append(None)
            else:
                t = "".join(chr(int(h.real(f"n{k}!{i}"))) for i in range(ln))
                pieces.append(SymStr([ord(c) for c in t]))
                text_parts.append(t)
            k += 1
        buf = SymStr([])
        for p in pieces:
            buf = buf + p
        text = None if h.symbolic else "".join(text_parts)
        return compare(h, buf, text)

    return harness


# ------------------------------------------------------------------ call history
def make_hist(c1, c2):
    """parse `M0,0 c1 T` and then `M0,0 c2 T` in the SAME module instance (reset to its freshly
    imported state at the start of every path): the second parse must still be what the grammar
    defines for its own string.  T is one argument text shared by both commands: seven one-
    character tokens `t1 t2 t3 t4t5 t6 t7`, the 4th and 5th adjacent (compact arc flags for A/a,
    one two-digit number for every other command): the only place where the same text lexes
    differently depending on the command letter."""

    def harness(h):
        mods = c10_mods() if h.symbolic else None
        if h.symbolic:
            loader.reset_state(mods)
            h.ctx.opts["alphabet"] = ALPHABET
            h.ctx.opts["sym_hash"] = True
        toks = []
        for i in range(7):
            if h.symbolic:
                toks.append(SymStr.fresh(f"n{i}", 1, "0159"))
            else:
                toks.append(SymStr([int(h.real(f"n{i}!0"))]))
        T = toks[0] + " " + toks[1] + " " + toks[2] + " " + toks[3] + toks[4] + " " + toks[5] + " " + toks[6]
        t_text = None if h.symbolic else "".join(chr(c) for c in T.cs)
        b1 = SymStr([ord(c) for c in "M0,0" + c1]) + T
        b2 = SymStr([ord(c) for c in "M0,0" + c2]) + T
        if h.symbolic:
            r1 = compare(h, b1, None)
            return r1 + compare(h, b2, None)
        # concrete: a fresh interpreter state is not available in-process; the real package is
        # imported once per replay process, which is the history under test (A then B)
        r1 = compare(h, b1, "M0,0" + c1 + t_text)
        return r1 + compare(h, b2, "M0,0" + c2 + t_text)

    return harness


# ------------------------------------------------------------------ L3
def make_print(letter, reps):
    def harness(h):
        M = h.m.svg_meta
        P = h.m.svg_path_iter
        n = G.ARITY[letter.lower()] * reps
        args = []
        for i in range(n):
            if letter.lower() == "a" and i % 7 in (3, 4):
                args.append(h.pick([0, 1], f"flag{i}"))
            else:
                args.append(h.real(f"v{i}"))
        seg = M.path_segment(letter, *args)
        back = list(P.parse_svg_path(seg, exploded=True))
        ok = len(back) == reps and all(str(c) == (letter if i == 0 or letter not in "Mm" else ("L" if letter == "M" else "l")) for i, (c, _) in enumerate(back))
        if not h.check(ok, "print_parse.same_commands", detail=seg if not h.symbolic else None):
            return ["structure"]
        flat = [x for _, a in back for x in a]
        conds = [h.eq(x, y) for x, y in zip(flat, args)]
        h.check(h.and_(*conds) if conds else True, "print_parse.same_arguments")
        return ["ok"]

    return harness


def _repr_float_shape(s):
    """does the symbolic string have one of the shapes repr(float)/ntos can print?  (forks)
    -?(0|[1-9][0-9]*)  |  -?(0|[1-9][0-9]*)\\.[0-9]+  |  -?[0-9](\\.[0-9]+)?e[-+][0-9]{2,3}"""
    cs = s.cs
    i, n = 0, len(cs)
    if i < n and SymStr.is_char(cs[i], 45):
        i += 1
    if i >= n or not SymStr.in_range(cs[i], 48, 57):
        return False
    lead_zero = SymStr.is_char(cs[i], 48)
    i += 1
    nint = 1
    while i < n and SymStr.in_range(cs[i], 48, 57):
        if lead_zero:
            return False
        i += 1
        nint += 1
    if i == n:
        return True
    nfrac = 0
    if SymStr.is_char(cs[i], 46):
        i += 1
        while i < n and SymStr.in_range(cs[i], 48, 57):
            i += 1
            nfrac += 1
        if nfrac == 0:
            return False
        if i == n:
            return True
    if SymStr.is_char(cs[i], 101):
        if nint != 1:
            return False
        i += 1
        if i >= n or not SymStr.one_of(cs[i], (43, 45)):
            return False
        i += 1
        ne = 0
        while i < n and SymStr.in_range(cs[i], 48, 57):
            i += 1
            ne += 1
        return i == n and 2 <= ne <= 3
    return False


def make_token(n):
    def harness(h):
        P = h.m.svg_path_iter
        if h.symbolic:
            h.ctx.opts["alphabet"] = "0123456789-+.e"
            tok = SymStr.fresh("t", n, "0123456789-+.e")
            text = None
        else:
            text = "".join(chr(int(h.real(f"t!{i}"))) for i in range(n))
            tok = SymStr([ord(c) for c in text])
        if not _repr_float_shape(tok):
            return ["not-a-float-repr"]
        m = P._FLOAT_RE.match(tok if h.symbolic else text)
        ok = m is not None and m.span() == (0, n)
        h.check(ok, "printed_number_is_one_token", detail=text)
        # followed by a separator and another number, or glued to a signed number, it still ends there
        for tail in (",1", " 1", "-1"):
            t2 = tok + tail if h.symbolic else None
            m2 = P._FLOAT_RE.match(t2 if h.symbolic else text + tail)
            h.check(m2 is not None and m2.span() == (0, n), "printed_number_token_not_extended", detail=(text, tail))
        return ["float-repr"]

    return harness


# ------------------------------------------------------------------ L3b: ntos on repr skeletons
_NTOS_MODS = None


def ntos_mods():
    """svg_meta loaded with `str`/`repr` replaced so that str(n) of the symbolic float below is its
    symbolic repr string"""
    global _NTOS_MODS
    if _NTOS_MODS is None:
        from sx.values import SxStr, sx_repr

        _NTOS_MODS = loader.load(fake_skia=True, lex_placeholders=False, modules=("svg_meta",), extra_builtins={"str": SxStr, "repr": sx_repr})
    return _NTOS_MODS


class ReprFloat(SymReal):
    """A float (or int) known by its repr: characters are symbolic digits inside a concrete
    repr(float) skeleton; the value is positional arithmetic over them (10**e of a symbolic
    exponent is an uninterpreted positive power)."""

    def __init__(self, tok, form, sk):
        SymReal.__init__(self, tok.to_float().t)
        self.tok, self.form, self.sk = tok, form, sk

    def __sx_str__(self):
        return self.tok

    def __sx_isinstance__(self, classinfo):
        import numbers
        from sx.values import SxFloat, SxInt

        cs = classinfo if isinstance(classinfo, tuple) else (classinfo,)
        mine = (int, SxInt, numbers.Integral) if self.form == "int" else (float, SxFloat)
        return any(c in mine or c in (numbers.Number, numbers.Real, object) for c in cs)

    def is_integer(self):
        if self.form == "int":
            return True  # int.is_integer exists since python 3.12
        if self.form == "fixed":
            frac = self.tok.cs[-self.sk["nf"] :]
            return all(SymStr.is_char(c, 48) for c in frac)
        if self.form == "exppos":
            return True  # >= 1e16 with at most 7 significant digits
        return False  # d(.ddd)e-NN, NN >= 5, d != 0

    def __sx_int__(self):
        cs = self.tok.cs
        if self.form == "int":
            return ReprInt(SymStr(cs))
        if self.form == "expneg":
            return 0
        if self.form == "exppos":
            # str(int(1e23)) is the exact binary expansion of the double: outside the real-number model
            C.cur().opts.setdefault("outside_hits", []).append("int() of a float >= 1e16")
            raise C.Infeasible()
        neg = self.sk["sign"] == "-"
        ip = cs[1 : 1 + self.sk["ni"]] if neg else cs[: self.sk["ni"]]
        if self.sk["ni"] == 1 and SymStr.is_char(ip[0], 48):
            return 0  # int(-0.5) == 0
        return ReprInt(SymStr(([45] if neg else []) + list(ip)))


class ReprInt:
    """int(n) of a ReprFloat: only its decimal string is needed"""

    def __init__(self, digits):
        self.digits = digits

    def __sx_str__(self):
        return self.digits

    __str__ = None


def _digits(name, n, first_nonzero=False, last_nonzero=False):
    out = []
    for i in range(n):
        alpha = "0123456789"
        if (i == 0 and first_nonzero) or (i == n - 1 and last_nonzero):
            alpha = "123456789"
        out.append(SymStr.fresh(f"{name}{i}", 1, alpha).cs[0])
    return out


def _ival(cs):
    v = 0
    for c in cs:
        v = v * 10 + (c - 48)
    return v


def make_ntos(form, sk):
    """the real ntos on an arbitrary float of the given repr skeleton; the printed text must be one
    number token (whole match, not extended by what may follow it) whose value is the float's"""

    def skeleton(h):
        pre = [45] if sk["sign"] == "-" else []
        if form == "int":
            ip = _digits("i", sk["ni"], first_nonzero=sk["ni"] > 1)
            return pre + ip
        if form == "fixed":
            ip = _digits("i", sk["ni"], first_nonzero=sk["ni"] > 1)
            fp = _digits("f", sk["nf"], last_nonzero=sk["nf"] > 1)
            if sk["ni"] == 1 and sk["nf"] > 4:
                # 0.0000x prints in exponent form: below 1e-4 is not a fixed repr
                h.ctx.assume(z3.Or(ip[0] != 48, *[c != 48 for c in fp[:4]]))
            return pre + ip + [46] + fp
        d1 = _digits("i", 1, first_nonzero=True)
        fp = _digits("f", sk["nf"], last_nonzero=True) if sk["nf"] else []
        ep = _digits("x", sk["ne"], first_nonzero=sk["ne"] == 3)
        ev = _ival(ep)
        if form == "expneg":
            h.ctx.assume(z3.And(ev >= 5, ev <= 324))
        else:
            h.ctx.assume(z3.And(ev >= 16, ev <= 308))
        return pre + d1 + ([46] + fp if fp else []) + [101, 45 if form == "expneg" else 43] + ep

    def harness(h):
        P = c10_mods().svg_path_iter if h.symbolic else h.m.svg_path_iter
        if h.symbolic:
            h.ctx.opts["alphabet"] = "0123456789-+.e"
            h.ctx.opts["pow10_uf"] = True
            tok = SymStr(skeleton(h))
            n = ReprFloat(tok, form, sk)
            out = ntos_mods().svg_meta.ntos(n)
            if isinstance(out, str):
                out = SymStr([ord(c) for c in out])
            if not h.check(isinstance(out, SymStr), "ntos.returns_text", detail=type(out).__name__):
                return ["type"]
            text = None
            value_ok = SymReal(out.to_float().t) == SymReal(n.t) if _floatable(out) else False
        else:
            text = _model_text(h, form, sk)
            n = int(text) if form == "int" else float(text)
            if repr(n) != text:
                raise Abort(f"{text!r} is not a repr")
            out = h.m.svg_meta.ntos(n)
            if not h.check(isinstance(out, str), "ntos.returns_text", detail=type(out).__name__):
                return ["type"]
            try:
                value_ok = float(out) == n
            except ValueError:
                value_ok = False
        L = len(out)
        m = P._FLOAT_RE.match(out)
        h.check(m is not None and m.span() == (0, L), "ntos.printed_number_is_one_token", detail=(text, out if not h.symbolic else None))
        for tail in (",1", " 1", "-1"):
            m2 = P._FLOAT_RE.match(out + tail)
            h.check(m2 is not None and m2.span() == (0, L), "ntos.printed_number_token_not_extended", detail=(text, tail))
        h.check(value_ok, "ntos.printed_number_has_the_value", detail=(text, out if not h.symbolic else None))
        return ["ntos", form]

    return harness


def _floatable(s):
    try:
        s.to_float()
        return True
    except ValueError:
        return False


def _model_text(h, form, sk):
    def ds(name, n):
        return "".join(chr(int(h.real(f"{name}{i}!0"))) for i in range(n))

    pre = sk["sign"]
    if form == "int":
        return pre + ds("i", sk["ni"])
    if form == "fixed":
        return pre + ds("i", sk["ni"]) + "." + ds("f", sk["nf"])
    return pre + ds("i", 1) + ("." + ds("f", sk["nf"]) if sk["nf"] else "") + "e" + ("-" if form == "expneg" else "+") + ds("x", sk["ne"])


def ntos_cases(tier):
    cs = []
    maxd = 4 if tier == "quick" else 7
    for sign in ("", "-"):
        for ni in range(1, maxd + 1):
            cs.append({"kind": "ntos", "form": "int", "sk": {"sign": sign, "ni": ni}})
            for nf in range(1, maxd + 2 - ni + (3 if ni == 1 else 0)):
                cs.append({"kind": "ntos", "form": "fixed", "sk": {"sign": sign, "ni": ni, "nf": nf}})
        for form in ("expneg", "exppos"):
            for nf in range(0, maxd):
                for ne in (2, 3):
                    cs.append({"kind": "ntos", "form": form, "sk": {"sign": sign, "nf": nf, "ne": ne}})
    return cs


def cases(tier, seed):
    cs = []
    nmax = 3 if tier == "quick" else 4
    for n in range(0, nmax + 1):
        if n == 0:
            cs.append({"kind": "l1", "n": 0, "first": ""})
            continue
        for first in ALPHABET:
            cs.append({"kind": "l1", "n": n, "first": first})
    for L in LETTERS:
        if L in "Zz":
            continue
        a = G.ARITY[L.lower()]
        # number-string length by arity so that a case stays within ~10^4 paths
        nl = {1: 3, 2: 2, 4: 1, 6: 1, 7: 1}[a] if tier == "quick" else {1: 4, 2: 3, 4: 2, 6: 1, 7: 1}[a]
        for st in range(3):
            cs.append({"kind": "l2", "letters": L, "reps": 1, "numlen": nl, "sep": st})
    for L in "MlhT":
        cs.append({"kind": "l2", "letters": L, "reps": 2, "numlen": 1 if tier == "quick" else 2, "sep": 1})
    for L in LETTERS:
        if L in "Zz":
            continue
        for r in (1, 2) if tier == "quick" else (1, 2, 3):
            cs.append({"kind": "print", "letter": L, "reps": r})
    for n in range(1, 6 if tier == "quick" else 8):
        cs.append({"kind": "token", "n": n})
    cs += ntos_cases(tier)
    # call histories: every ordered pair of argument-taking letters in which at least one is an arc
    # (plus, in thorough, all pairs)
    args_letters = [L for L in LETTERS if L not in "Zz"]
    for c1 in args_letters:
        for c2 in args_letters:
            if c1 == c2:
                continue
            if tier == "quick" and not (c1 in "Aa" or c2 in "Aa"):
                continue
            cs.append({"kind": "hist", "c1": c1, "c2": c2})
    return cs


def case_cost(case):
    if case["kind"] == "l1":
        return 27 ** max(case["n"] - 1, 0)
    if case["kind"] == "l2":
        return 5 ** (case["numlen"] * G.ARITY[case["letters"][-1].lower()] * case["reps"])
    return 5


def harness_for(case):
    k = case["kind"]
    if k == "l1":
        return make_l1(case["n"], case["first"])
    if k == "l2":
        return make_l2(case["letters"], case["reps"], case["numlen"], case["sep"])
    if k == "print":
        return make_print(case["letter"], case["reps"])
    if k == "ntos":
        return make_ntos(case["form"], case["sk"])
    if k == "hist":
        return make_hist(case["c1"], case["c2"])
    return make_token(case["n"])


def run_case(case, tier):
    if case["kind"] == "print":
        m = common.mods(fake_skia=True)
    else:
        m = c10_mods()
    return common.run_symbolic(
        harness_for(case),
        mods_=m,
        timeout_ms=5000,
        opts={},
        validate_every=60,
        trace_first=1,
        compare_obs=False,
        max_paths=400000,
        twin=True,
    )


def finding_key(case, failure):
    k = {"kind": case["kind"], "label": failure["label"].split(".")[0]}
    inp = failure.get("inputs") or {}
    if case["kind"] == "l1":
        # normal form of the failing buffer: its character classes
        chars = case["first"] + "".join(chr(int(float(inp[f"b!{i}"]))) for i in range(case["n"] - 1) if f"b!{i}" in inp)
        k["shape"] = "".join("9" if c.isdigit() else ("c" if c in LETTERS else c) for c in chars)
    elif case["kind"] == "l2":
        k["letters"] = case["letters"]
    elif case["kind"] == "print":
        k["letter"] = case["letter"]
    elif case["kind"] == "ntos":
        k["form"] = case["form"]
    elif case["kind"] == "hist":
        k["c1"], k["c2"] = case["c1"], case["c2"]
    else:
        k["n"] = case["n"]
    return k


def replay(case, failure):
    return replay_concrete(harness_for(case), failure)


def describe(tier):
    nmax = 3 if tier == "quick" else 4
    return {
        "explanation": (
            "parse_svg_path / _parse_args / _explode_cmd / check_cmd / num_args executed on buffers whose characters are z3 Int "
            "code points; the module's three regexes (and the flag regex) run with Python's backtracking semantics over the "
            "symbolic characters, compiled from their own .pattern; float()/int() of a symbolic token are positional arithmetic. "
            "Oracle: a recursive-descent recogniser of the SVG 1.1 path BNF on the same symbolic buffer.  Per path: (i) a "
            "conforming buffer is rejected with ValueError or parsed to exactly the grammar's exploded sequence (letters, arity, "
            "arguments equal as reals); (ii) nothing but ValueError escapes.  Printing: path_segment then parser is the identity on "
            "symbolic arguments; every repr(float)-shaped token is consumed whole."
        ),
        "bounds": {
            "L1": f"every buffer of length <= {nmax} over the 40-symbol alphabet {ALPHABET!r}",
            "L2": "token templates M? cmd (sep num)^(arity*r), all 18 argument-taking letters, r<=2, number strings of length <= 2/3 over '0159+-.eE', 3/6 separator styles",
            "L3": "all 18 letters x 1-2(3) repeats with symbolic reals; repr-shaped tokens of length <= 5 (7)",
            "ntos": "the real ntos on a float/int known by its repr: fixed, exponent+/-, int skeletons with <= 4 (7) digits per part, digits symbolic (canonical-repr constraints assumed); str/repr/int/isinstance of the loaded module replaced",
            "hist": "two parses in one module instance (state reset per path): M0,0 c1 T then M0,0 c2 T, T = seven one-character tokens over '0159' with the 4th and 5th adjacent; ordered letter pairs with an arc (quick) / all (thorough)",
        },
        "outside": ["buffers longer than the bounds", "Unicode beyond the alphabet", "float() of CPython itself (modelled: sign, digits, fraction, exponent)", "SVG 2's relaxed arc-flag separator rule (the SVG 1.1 BNF is the reference)", "str(int(n)) of floats >= 1e16 (exact binary expansion)", "exponents beyond +-400 (inf / 0.0 in CPython)", "call histories other than two consecutive parses"],
        "stubs": c10_mods().stubs,
        "assumptions": ["float(repr(x)) == x is CPython's guarantee", "repr(float) shapes: -?int, -?int.frac, -?d(.frac)?e[+-]dd(d)"],
    }
