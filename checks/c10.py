"""C10 - path data parses per the SVG grammar or is rejected, and printing round-trips.

L1: every buffer of length <= n over a 40-symbol alphabet, characters symbolic
    (z3 Int code points); the real parse_svg_path runs on it with the module's own
    regexes re-implemented with Python's backtracking semantics over symbolic
    characters (compiled from the .pattern of the regex objects in the loaded
    module); oracle = independent recursive-descent recogniser of the SVG 1.1 BNF.
L2: token templates `cmd (sep num){arity*r}` with concrete letters and separators and
    symbolic number strings - glued numbers, compact arc flags, leading zeros at
    total lengths L1 cannot reach.
L3: printing: path_segment on symbolic numbers then the real parser gives back the
    same commands with provably equal arguments; every string of the shape repr(float)
    can produce (bounded length, symbolic characters) is consumed completely by the
    number regex under Python's priority semantics.
"""
import itertools

import z3

from sx import common, loader
from sx import ctx as C
from sx.dual import replay_concrete, Abort
from sx.spec import path_grammar as G
from sx.symstr import SymStr, SymPattern
from sx.values import SymReal, term_of

PROPERTY = "C10"
LETTERS = "MmZzLlHhVvCcSsQqTtAa"
ALPHABET = LETTERS + "0123456789" + "+-.eE, \t\n" + "x"
NUM_ALPHABET = "0159+-.eE"
_MODS = None


def c10_mods():
    """own load: number lexing is the subject, so no placeholder extension; the four regexes
    of svg_path_iter are wrapped so that they also accept symbolic strings"""
    global _MODS
    if _MODS is None:
        m = loader.load(fake_skia=True, lex_placeholders=False)
        spi = m.svg_path_iter
        wrapped = {}
        for name in ("_CMD_RE", "_SEPARATOR_RE", "_FLOAT_RE", "_BOOL_RE"):
            real = getattr(spi, name)
            wrapped[id(real)] = SymPattern(real)
            setattr(spi, name, wrapped[id(real)])
        spi._ARC_ARGUMENT_TYPES = tuple((conv, wrapped.get(id(rx), rx)) for conv, rx in spi._ARC_ARGUMENT_TYPES)
        m.stubs.append(
            "svg_path_iter regexes wrapped by sx.symstr.SymPattern: Python backtracking semantics over symbolic characters, "
            "compiled from the .pattern of the module's own regex objects"
        )
        _MODS = m
    return _MODS


def num_value(v):
    if isinstance(v, SymReal):
        t = z3.simplify(v.t)
        if z3.is_rational_value(t) or z3.is_int_value(t):
            return float(C.frac_of_model_value(t))
    return v


def run_parser(h, buf, as_text):
    P = h.m.svg_path_iter
    try:
        res = list(P.parse_svg_path(buf if h.symbolic else as_text, exploded=True))
        return [(str(c), list(a)) for c, a in res], None
    except ValueError:
        return None, "ValueError"
    except C.Concretize:
        raise
    except Exception as e:  # noqa: any other exception type is a violation
        return None, type(e).__name__


def compare(h, buf, as_text):
    got, err = run_parser(h, buf, as_text)
    if not h.check(err in (None, "ValueError"), "only_ValueError_escapes", detail=(err, as_text)):
        return ["other-exception"]
    want = G.recognise(buf)
    if want is None:
        h.tag("not-in-grammar")
        return ["not-in-grammar", err]
    if err == "ValueError":
        h.tag("conforming-rejected")
        return ["rejected"]
    h.tag("conforming-parsed")
    ok = len(got) == len(want) and all(g[0] == w[0] and len(g[1]) == len(w[1]) for g, w in zip(got, want))
    if not h.check(ok, "conforming_string_parses_to_the_grammar_sequence.structure", detail=(as_text, [(c, len(a)) for c, a in got][:6], [(c, len(a)) for c, a in want][:6])):
        return ["structure"]
    conds = []
    for (gc, ga), (wc, wa) in zip(got, want):
        for x, y in zip(ga, wa):
            if h.symbolic:
                conds.append(h.eq(x, y))
            else:
                conds.append(abs(float(x) - float(num_value(y))) <= 1e-12 * (1 + abs(float(x))))
    if conds:
        h.check(h.and_(*conds) if h.symbolic else all(conds), "conforming_string_parses_to_the_grammar_sequence.numbers", detail=as_text)
    return ["parsed", len(got)]


# ------------------------------------------------------------------ L1
def make_l1(n, first):
    def harness(h):
        if h.symbolic:
            h.ctx.opts["alphabet"] = ALPHABET
            rest = SymStr.fresh("b", n - 1, ALPHABET) if n > 1 else SymStr([])
            buf = SymStr([ord(first)]) + rest if n >= 1 else SymStr([])
            text = None
        else:
            chars = [first] + [chr(int(h.real(f"b!{i}"))) for i in range(n - 1)] if n >= 1 else []
            text = "".join(chars)
            buf = SymStr([ord(c) for c in text])
        return compare(h, buf, text)

    return harness


# ------------------------------------------------------------------ L2
SEPS = ["", ",", " ", ", ", "\t", " ,"]


def make_l2(letters, reps, numlen, sepstyle):
    """`M0,0` (concrete) + letter + symbolic number strings; for M/m the letter itself starts the path"""

    def harness(h):
        if h.symbolic:
            h.ctx.opts["alphabet"] = ALPHABET
        pieces = []
        text_parts = []
        k = 0
        L = letters[-1]
        if L not in "Mm":
            pieces.append(SymStr([ord(c) for c in "M0,0"]))
            text_parts.append("M0,0")
        pieces.append(SymStr([ord(L)]))
        text_parts.append(L)
        n_args = G.ARITY[L.lower()] * reps
        for j in range(n_args):
            if j == 0:
                sep = ["", " ", ""][sepstyle % 3]
            else:
                sep = SEPS[(sepstyle + j) % len(SEPS)]
            pieces.append(SymStr([ord(c) for c in sep]))
            text_parts.append(sep)
            ln = 1 if (L.lower() == "a" and j % 7 in (3, 4)) else numlen
            if h.symbolic:
                s_ = SymStr.fresh(f"n{k}", ln, NUM_ALPHABET)
                pieces.append(s_)
                text_parts.append(None)
            else:
                t = "".join(chr(int(h.real(f"n{k}!{i}"))) for i in range(ln))
                pieces.append(SymStr([ord(c) for c in t]))
                text_parts.append(t)
            k += 1
        buf = SymStr([])
        for p in pieces:
            buf = buf + p
        text = None if h.symbolic else "".join(text_parts)
        return compare(h, buf, text)

    return harness


# ------------------------------------------------------------------ L3
def make_print(letter, reps):
    def harness(h):
        M = h.m.svg_meta
        P = h.m.svg_path_iter
        n = G.ARITY[letter.lower()] * reps
        args = []
        for i in range(n):
            if letter.lower() == "a" and i % 7 in (3, 4):
                args.append(h.pick([0, 1], f"flag{i}"))
            else:
                args.append(h.real(f"v{i}"))
        seg = M.path_segment(letter, *args)
        back = list(P.parse_svg_path(seg, exploded=True))
        ok = len(back) == reps and all(str(c) == (letter if i == 0 or letter not in "Mm" else ("L" if letter == "M" else "l")) for i, (c, _) in enumerate(back))
        if not h.check(ok, "print_parse.same_commands", detail=seg if not h.symbolic else None):
            return ["structure"]
        flat = [x for _, a in back for x in a]
        conds = [h.eq(x, y) for x, y in zip(flat, args)]
        h.check(h.and_(*conds) if conds else True, "print_parse.same_arguments")
        return ["ok"]

    return harness


def _repr_float_shape(s):
    """does the symbolic string have one of the shapes repr(float)/ntos can print?  (forks)
    -?(0|[1-9][0-9]*)  |  -?(0|[1-9][0-9]*)\\.[0-9]+  |  -?[0-9](\\.[0-9]+)?e[-+][0-9]{2,3}"""
    cs = s.cs
    i, n = 0, len(cs)
    if i < n and SymStr.is_char(cs[i], 45):
        i += 1
    if i >= n or not SymStr.in_range(cs[i], 48, 57):
        return False
    lead_zero = SymStr.is_char(cs[i], 48)
    i += 1
    nint = 1
    while i < n and SymStr.in_range(cs[i], 48, 57):
        if lead_zero:
            return False
        i += 1
        nint += 1
    if i == n:
        return True
    nfrac = 0
    if SymStr.is_char(cs[i], 46):
        i += 1
        while i < n and SymStr.in_range(cs[i], 48, 57):
            i += 1
            nfrac += 1
        if nfrac == 0:
            return False
        if i == n:
            return True
    if SymStr.is_char(cs[i], 101):
        if nint != 1:
            return False
        i += 1
        if i >= n or not SymStr.one_of(cs[i], (43, 45)):
            return False
        i += 1
        ne = 0
        while i < n and SymStr.in_range(cs[i], 48, 57):
            i += 1
            ne += 1
        return i == n and 2 <= ne <= 3
    return False


def make_token(n):
    def harness(h):
        P = h.m.svg_path_iter
        if h.symbolic:
            h.ctx.opts["alphabet"] = "0123456789-+.e"
            tok = SymStr.fresh("t", n, "0123456789-+.e")
            text = None
        else:
            text = "".join(chr(int(h.real(f"t!{i}"))) for i in range(n))
            tok = SymStr([ord(c) for c in text])
        if not _repr_float_shape(tok):
            return ["not-a-float-repr"]
        m = P._FLOAT_RE.match(tok if h.symbolic else text)
        ok = m is not None and m.span() == (0, n)
        h.check(ok, "printed_number_is_one_token", detail=text)
        # followed by a separator and another number, or glued to a signed number, it still ends there
        for tail in (",1", " 1", "-1"):
            t2 = tok + tail if h.symbolic else None
            m2 = P._FLOAT_RE.match(t2 if h.symbolic else text + tail)
            h.check(m2 is not None and m2.span() == (0, n), "printed_number_token_not_extended", detail=(text, tail))
        return ["float-repr"]

    return harness


def cases(tier, seed):
    cs = []
    nmax = 3 if tier == "quick" else 4
    for n in range(0, nmax + 1):
        if n == 0:
            cs.append({"kind": "l1", "n": 0, "first": ""})
            continue
        for first in ALPHABET:
            cs.append({"kind": "l1", "n": n, "first": first})
    for L in LETTERS:
        if L in "Zz":
            continue
        a = G.ARITY[L.lower()]
        # number-string length by arity so that a case stays within ~10^4 paths
        nl = {1: 3, 2: 2, 4: 1, 6: 1, 7: 1}[a] if tier == "quick" else {1: 4, 2: 3, 4: 2, 6: 1, 7: 1}[a]
        for st in range(3):
            cs.append({"kind": "l2", "letters": L, "reps": 1, "numlen": nl, "sep": st})
    for L in "MlhT":
        cs.append({"kind": "l2", "letters": L, "reps": 2, "numlen": 1 if tier == "quick" else 2, "sep": 1})
    for L in LETTERS:
        if L in "Zz":
            continue
        for r in (1, 2) if tier == "quick" else (1, 2, 3):
            cs.append({"kind": "print", "letter": L, "reps": r})
    for n in range(1, 6 if tier == "quick" else 8):
        cs.append({"kind": "token", "n": n})
    return cs


def case_cost(case):
    if case["kind"] == "l1":
        return 27 ** max(case["n"] - 1, 0)
    if case["kind"] == "l2":
        return 5 ** (case["numlen"] * G.ARITY[case["letters"][-1].lower()] * case["reps"])
    return 5


def harness_for(case):
    k = case["kind"]
    if k == "l1":
        return make_l1(case["n"], case["first"])
    if k == "l2":
        return make_l2(case["letters"], case["reps"], case["numlen"], case["sep"])
    if k == "print":
        return make_print(case["letter"], case["reps"])
    return make_token(case["n"])


def run_case(case, tier):
    if case["kind"] == "print":
        m = common.mods(fake_skia=True)
    else:
        m = c10_mods()
    return common.run_symbolic(
        harness_for(case),
        mods_=m,
        timeout_ms=5000,
        opts={},
        validate_every=60,
        trace_first=1,
        compare_obs=False,
        max_paths=400000,
        twin=True,
    )


def finding_key(case, failure):
    k = {"kind": case["kind"], "label": failure["label"].split(".")[0]}
    inp = failure.get("inputs") or {}
    if case["kind"] == "l1":
        # normal form of the failing buffer: its character classes
        chars = case["first"] + "".join(chr(int(float(inp[f"b!{i}"]))) for i in range(case["n"] - 1) if f"b!{i}" in inp)
        k["shape"] = "".join("9" if c.isdigit() else ("c" if c in LETTERS else c) for c in chars)
    elif case["kind"] == "l2":
        k["letters"] = case["letters"]
    elif case["kind"] == "print":
        k["letter"] = case["letter"]
    else:
        k["n"] = case["n"]
    return k


def replay(case, failure):
    return replay_concrete(harness_for(case), failure)


def describe(tier):
    nmax = 3 if tier == "quick" else 4
    return {
        "explanation": (
            "parse_svg_path / _parse_args / _explode_cmd / check_cmd / num_args executed on buffers whose characters are z3 Int "
            "code points; the module's three regexes (and the flag regex) run with Python's backtracking semantics over the "
            "symbolic characters, compiled from their own .pattern; float()/int() of a symbolic token are positional arithmetic. "
            "Oracle: a recursive-descent recogniser of the SVG 1.1 path BNF on the same symbolic buffer.  Per path: (i) a "
            "conforming buffer is rejected with ValueError or parsed to exactly the grammar's exploded sequence (letters, arity, "
            "arguments equal as reals); (ii) nothing but ValueError escapes.  Printing: path_segment then parser is the identity on "
            "symbolic arguments; every repr(float)-shaped token is consumed whole."
        ),
        "bounds": {
            "L1": f"every buffer of length <= {nmax} over the 40-symbol alphabet {ALPHABET!r}",
            "L2": "token templates M? cmd (sep num)^(arity*r), all 18 argument-taking letters, r<=2, number strings of length <= 2/3 over '0159+-.eE', 3/6 separator styles",
            "L3": "all 18 letters x 1-2(3) repeats with symbolic reals; repr-shaped tokens of length <= 5 (7)",
        },
        "outside": ["buffers longer than the bounds", "Unicode beyond the alphabet", "float() of CPython itself (modelled: sign, digits, fraction, exponent)", "SVG 2's relaxed arc-flag separator rule (the SVG 1.1 BNF is the reference)"],
        "stubs": c10_mods().stubs,
        "assumptions": ["float(repr(x)) == x is CPython's guarantee", "repr(float) shapes: -?int, -?int.frac, -?d(.frac)?e[+-]dd(d)"],
    }
