"""C15 - an SVG object always equals its serialisation, whatever the operation history.

One step from each cache state class (DESIGN 2/C15): for a history prefix P (0-2
public operations, in place or copying, incl. read-only queries that populate
the shape cache) and a next operation op:
  (i)   op(x).tostring() == op(reparse(x.tostring())).tostring()   (canonical XML, numbers provably equal)
  (ii)  copying op leaves x.tostring() unchanged
  (iii) in-place op returns x
Documents carry symbolic numbers; the solver contributes universality over them
and the numeric forks (opacity 0, zero area, identity transforms).
"""
import itertools
import zlib

from checks import outcheck
from checks.pipeline_common import symbols, instantiate, run_template_case, PIPE_OUTSIDE, doc
from sx import common
from sx import fake_pathops as FP
from sx.dual import replay_concrete

PROPERTY = "C15"
EXC = (ValueError, ZeroDivisionError, AssertionError, NotImplementedError, AttributeError, TypeError, KeyError)

DOCS = {
    "basic": doc(
        '<defs><linearGradient id="g"><stop offset="0"/></linearGradient><rect id="r" width="7" height="5"/></defs>'
        '<g opacity="{o1}" transform="translate({tx} 3)"><rect x="1.23456" y="2.71828" width="6.54321" height="4.11111" style="fill:red" stroke="blue"/>'
        '<path d="m1.11111,1.22222 h3.33333 v3.44444 s1.5,1.5 2.55555,0 z M2,2" fill="url(#g)" fill-rule="evenodd"/></g><use xlink:href="#r" x="20"/><title>t</title><?pi x?>'
    ),
    "nested": doc(
        '<svg x="2" y="1" width="20" height="20" viewBox="0 0 10 10"><circle cx="3" cy="3" r="2" fill-opacity="{o1}"/></svg>'
        '<polygon points="1,1 5,1 3,6" opacity="0.5" stroke="red" stroke-width="{s1}" fill="none"/><symbol><rect width="1" height="1"/></symbol>'
    ),
    "styled": doc(
        '<g style="fill:red;opacity:{o1}" stroke-width="{s1}"><rect x="1.5" y="2.25" width="6.5" height="4.125"/>'
        '<path d="M1,1 L{x1},1.5 L3,3.25 Z" style="stroke:blue;fill-opacity:0.5"/></g><rect width="3.5" height="2.5" fill="green" style="display:inline"/>'
    ),
    "pico": doc('<defs/><g opacity="0.5"><path d="M1.23456,1 L{x1},1.98765 L3,3.14159 Z" fill="red"/><path d="M2,2 L5,2 L4,6 Z"/></g><path d="M0,0 L1,0 L1,1 Z" opacity="{o1}"/>'),
}

OPS = {
    # name: (lambda svg, inplace -> result, is_query)
    "shapes": (lambda s, ip: s.shapes(), True),
    "bounding_box": (lambda s, ip: s.bounding_box(), True),
    "view_box": (lambda s, ip: s.view_box(), True),
    "tolerance": (lambda s, ip: s.tolerance, True),
    "checkpicosvg": (lambda s, ip: s.checkpicosvg(), True),
    "tostring": (lambda s, ip: s.tostring(), True),
    "toetree": (lambda s, ip: s.toetree(), True),
    "absolute": (lambda s, ip: s.absolute(inplace=ip), False),
    "shapes_to_paths": (lambda s, ip: s.shapes_to_paths(inplace=ip), False),
    "expand_shorthand": (lambda s, ip: s.expand_shorthand(inplace=ip), False),
    "apply_style_attributes": (lambda s, ip: s.apply_style_attributes(inplace=ip), False),
    "resolve_use": (lambda s, ip: s.resolve_use(inplace=ip), False),
    "resolve_nested_svgs": (lambda s, ip: s.resolve_nested_svgs(inplace=ip), False),
    "simplify": (lambda s, ip: s.simplify(inplace=ip), False),
    "evenodd_to_nonzero_winding": (lambda s, ip: s.evenodd_to_nonzero_winding(inplace=ip), False),
    "round_floats": (lambda s, ip: s.round_floats(2, inplace=ip), False),
    "remove_empty_subpaths": (lambda s, ip: s.remove_empty_subpaths(inplace=ip), False),
    "remove_unpainted_shapes": (lambda s, ip: s.remove_unpainted_shapes(inplace=ip), False),
    "remove_nonsvg_content": (lambda s, ip: s.remove_nonsvg_content(inplace=ip), False),
    "remove_processing_instructions": (lambda s, ip: s.remove_processing_instructions(inplace=ip), False),
    "remove_anonymous_symbols": (lambda s, ip: s.remove_anonymous_symbols(inplace=ip), False),
    "remove_title_meta_desc": (lambda s, ip: s.remove_title_meta_desc(inplace=ip), False),
    "set_attributes": (lambda s, ip: s.set_attributes((("data-x", "1"),), inplace=ip), False),
    "remove_attributes": (lambda s, ip: s.remove_attributes(("viewBox",), inplace=ip), False),
    # an inheritable attribute set on non-shape elements only / the root's viewBox replaced
    "set_attributes_group_fill": (lambda s, ip: s.set_attributes((("fill", "teal"),), xpath="//svg:g", inplace=ip), False),
    "set_viewbox": (lambda s, ip: s.set_attributes((("viewBox", "0 0 4 4"),), inplace=ip), False),
    "normalize_opacity": (lambda s, ip: s.normalize_opacity(inplace=ip), False),
    "topicosvg": (lambda s, ip: s.topicosvg(inplace=ip), False),
    "clip_to_viewbox": (lambda s, ip: s.clip_to_viewbox(inplace=ip), False),
}
MUTATORS = [k for k, v in OPS.items() if not v[1]]
QUERIES = [k for k, v in OPS.items() if v[1]]


def apply(S, svg, name, inplace):
    fn, is_query = OPS[name]
    r = fn(svg, inplace)
    if is_query:
        return svg, r
    return r, r


def make_harness(docname, history, op, inplace):
    template = DOCS[docname]

    def harness(h):
        S = h.m.svg
        vals = symbols(h, template)
        src = instantiate(h, template, vals)
        def build():
            """the object in the cache state reached by the history prefix (never serialised)"""
            x = S.SVG.fromstring(src)
            for name, ip in history:
                nx, _ = apply(S, x, name, ip)
                if nx is None:
                    return None, name
                x = nx if not OPS[name][1] else x
            return x, None

        try:
            x, broke = build()
            x2, _ = build()
        except EXC as e:
            h.tag("history-raised")
            return ["history-raised"]
        if x is None:
            h.check(False, "inplace_returns_receiver", detail=broke)
            return ["history-broke"]
        # ---- reference: a twin object (same history) serialised and re-parsed; x itself is
        # not touched, so its cache state is the one the history left
        try:
            snap = x2.tostring()
        except EXC:
            return ["unserialisable"]
        y = S.SVG.fromstring(snap)
        is_query = OPS[op][1]
        err_x = err_y = None
        try:
            rx, val_x = apply(S, x, op, inplace)
        except EXC as e:
            err_x = type(e).__name__
        try:
            ry, val_y = apply(S, y, op, inplace)
        except EXC as e:
            err_y = type(e).__name__
        if err_x or err_y:
            h.check(err_x == err_y, "same_exception_as_after_reparse", detail=(err_x, err_y))
            return ["raised"]
        if not is_query:
            if inplace:
                if not h.check(rx is x, "inplace_returns_receiver", detail=op):
                    return ["bad-return"]
            else:
                h.check(rx is not x and rx is not None, "copy_returns_new_object", detail=op)
                outcheck.same_document(h, snap, x.tostring(), "copy_leaves_receiver_unchanged")
            outcheck.same_document(h, ry.tostring(), rx.tostring(), "result_equals_result_after_reparse")
        else:
            # a query may flush the shape cache (re-serialising shapes canonically); what
            # matters is that it does the same to the object and to its re-parsed serialisation
            outcheck.same_document(h, y.tostring(), x.tostring(), "result_equals_result_after_reparse")
        return [op]

    return harness


def cases(tier, seed):
    cs = []
    docs = ["basic", "pico", "styled"] if tier == "quick" else list(DOCS)
    two_step = [[["view_box", True], ["set_viewbox", True]], [["shapes", True], ["set_attributes_group_fill", True]], [["shapes", True], ["set_viewbox", True]], [["bounding_box", True], ["remove_attributes", True]]]
    state_ops = ["shapes", "shapes_to_paths", "absolute", "expand_shorthand", "round_floats", "normalize_opacity", "evenodd_to_nonzero_winding", "remove_empty_subpaths", "apply_style_attributes"]
    for d in docs:
        for op in OPS:
            for ip in (True, False):
                if OPS[op][1] and not ip:
                    continue
                # fresh object
                cs.append({"doc": d, "history": [], "op": op, "inplace": ip})
                # one step from each cache state class (clean after a query / dirty after an in-place shape edit)
                for s_op in state_ops:
                    cs.append({"doc": d, "history": [[s_op, True]], "op": op, "inplace": ip})
                # a read (which may memoise) followed by an edit of what was read
                for hist in two_step:
                    cs.append({"doc": d, "history": hist, "op": op, "inplace": ip})
                if tier != "quick":
                    for s1, s2 in itertools.product(state_ops[:3], state_ops[:4]):
                        cs.append({"doc": d, "history": [[s1, True], [s2, True]], "op": op, "inplace": ip})
                    for s_op in MUTATORS:
                        if s_op in ("simplify", "topicosvg") and op == "clip_to_viewbox":
                            continue  # > 1500 paths each (whole pipeline twice, then clipping)
                        cs.append({"doc": d, "history": [[s_op, False]], "op": op, "inplace": ip})
    return cs


def harness_for(case):
    return make_harness(case["doc"], [tuple(x) for x in case["history"]], case["op"], case["inplace"])


def case_cost(case):
    return (5 if case["op"] in ("topicosvg", "simplify", "clip_to_viewbox") else 1) + len(case["history"])


def run_case(case, tier):
    return run_template_case(
        harness_for(case), tier, opts={"round_identity": False, "assume_positive_area": True, "tol_cut": True}, max_paths=200 if tier == "quick" else 1500, validate_every=10
    )


def finding_key(case, failure):
    return {"op": case["op"], "inplace": case["inplace"], "label": failure["label"].split(".")[0], "state": "+".join(n for n, _ in case["history"]) or "fresh"}


def replay(case, failure):
    return replay_concrete(harness_for(case), failure, allowed_exceptions=EXC)


def describe(tier):
    return {
        "explanation": (
            "Every public SVG operation (27, in place and copying) applied from each cache state class - fresh object, cache "
            "populated by a query, cache dirty after each in-place shape-level edit - on documents with symbolic numbers; the result "
            "must equal (canonical XML, numbers provably equal) the result obtained when the object is serialised and re-parsed "
            "before the operation; copying operations leave the receiver's serialisation unchanged and return a new object; in-place "
            "operations return the receiver; queries do not change the document.  Executes _elements/_set_element/_update_etree/"
            "_inherited_attrib/_clone/toetree and every operation's own cache bookkeeping."
        ),
        "bounds": {"documents": ["basic", "pico", "styled"] if tier == "quick" else list(DOCS), "histories": "length <= 1 before the operation under test plus four read-then-edit histories of length 2 (quick) / <= 2 (thorough): 9 state-setting operations x 29 operations x 2 modes"},
        "outside": PIPE_OUTSIDE + ["the state-class argument extends the bound by induction only if the classes cover all reachable cache states (argued in DESIGN, not proved)", "histories longer than the bound"],
        "stubs": common.mods().stubs + FP.CONTRACT,
        "assumptions": FP.CONTRACT + ["floats as reals"],
    }
