"""Abstract Skia (DESIGN 1.4): a pure-Python `pathops` whose paths carry a
*region term* instead of computed geometry.

Contract assumed of the real library (trusted, listed in evidence):
  op(a,b,K) is the set operation K on the operands' interiors under their own
  fill types; simplify preserves the interior; results are WINDING and
  fill-rule independent; verbs after convertConicsToQuads are M/L/Q/C/Z;
  bounds contains the region and is exact for polylines; area >= 0 and is a
  function of the region; transform maps control points affinely.
"""
import enum
import z3

from . import ctx as C
from .values import SymReal, term_of

CONTRACT = [
    "pathops.op(a,b,K) = set operation K of interiors under each operand's fillType (trusted Skia)",
    "Path.simplify preserves the interior; result WINDING, fill-rule independent (trusted Skia)",
    "Path.stroke/convertConicsToQuads: opaque outline, verbs M/L/Q/C/Z (trusted Skia)",
    "Path.area >= 0, Path.bounds contain the region, both functions of the region (trusted Skia)",
    "Path.transform maps control points affinely (affine image of a Bezier = Bezier of images)",
    "opaque results are rendered as one 3-point closed contour with fresh symbolic coordinates",
]


class PathOpsError(Exception):
    pass


class UnsupportedVerbError(PathOpsError):
    pass


class OpenPathError(PathOpsError):
    pass


class PathOp(enum.IntEnum):
    DIFFERENCE = 0
    INTERSECTION = 1
    UNION = 2
    XOR = 3
    REVERSE_DIFFERENCE = 4


class FillType(enum.IntEnum):
    WINDING = 0
    EVEN_ODD = 1
    INVERSE_WINDING = 2
    INVERSE_EVEN_ODD = 3


class PathVerb(enum.IntEnum):
    MOVE = 0
    LINE = 1
    QUAD = 2
    CONIC = 3
    CUBIC = 4
    CLOSE = 5


class LineCap(enum.IntEnum):
    BUTT_CAP = 0
    ROUND_CAP = 1
    SQUARE_CAP = 2


class LineJoin(enum.IntEnum):
    MITER_JOIN = 0
    ROUND_JOIN = 1
    BEVEL_JOIN = 2


def _ckey(v):
    """structural key of a coordinate / parameter"""
    if isinstance(v, SymReal):
        t = z3.simplify(v.t)
        if z3.is_rational_value(t) or z3.is_int_value(t):
            return ("q", str(C.frac_of_model_value(t)))
        C.cur().keepalive.append(t)
        return ("t", t.get_id(), t)
    if isinstance(v, (int, float)):
        import fractions

        return ("q", str(fractions.Fraction(v)))
    return ("o", repr(v))


def _strip(k):
    # key without the kept-alive z3 term
    return k[:2]


def _no_interior(t):
    """polyline leaves every contour of which has fewer than 3 points enclose nothing, whatever
    their coordinates (exact refinement of the abstract area: a lone line never paints by fill)"""
    if t.kind == "leaf":
        verbs = t.args[0]
        if not all(v in ("M", "L", "Z") for v in verbs):
            return False
        n = 0
        for v in verbs:
            if v == "M":
                n = 1
            elif v == "L":
                n += 1
                if n >= 3:
                    return False
        return True
    if t.kind in ("simplify", "xf"):
        return _no_interior(t.args[0])
    if t.kind == "op":
        op, a, b = t.args
        if op == PathOp.INTERSECTION:
            return _no_interior(a) or _no_interior(b)
        if op == PathOp.UNION:
            return _no_interior(a) and _no_interior(b)
        if op == PathOp.DIFFERENCE:
            return _no_interior(a)
    return False


def _polyline_only(t):
    """regions built by set operations / transforms from polylines only have polyline outlines:
    their control-point box IS their tight box (strokes and curve leaves do not qualify)"""
    if t.kind == "empty":
        return True
    if t.kind == "leaf":
        return all(v in ("M", "L", "Z") for v in t.args[0])
    if t.kind in ("simplify", "xf"):
        return _polyline_only(t.args[0])
    if t.kind == "op":
        return _polyline_only(t.args[1]) and _polyline_only(t.args[2])
    return False


class Term:
    """Region term.  kind in leaf|xf|op|simplify|stroke|c2q|empty"""

    __slots__ = ("kind", "args", "key", "keep")

    def __init__(self, kind, args, key, keep=()):
        self.kind = kind
        self.args = args
        self.key = key
        self.keep = keep

    def __eq__(self, o):
        return isinstance(o, Term) and self.key == o.key

    def __hash__(self):
        return hash(self.key)

    def __repr__(self):
        return pretty(self)

    def is_simple(self):
        """produced by an operation whose result is fill-rule independent"""
        return self.kind in ("op", "simplify", "empty") or (
            self.kind == "xf" and self.args[0].is_simple()
        )


def pretty(t):
    if t.kind == "leaf":
        verbs, fill, coords = t.args
        return f"Leaf({''.join(verbs)},{fill.name},n={len(coords)})"
    if t.kind == "empty":
        return "Empty"
    if t.kind == "xf":
        return f"Xf({pretty(t.args[0])})"
    if t.kind == "op":
        return f"Op({t.args[0].name},{pretty(t.args[1])},{pretty(t.args[2])})"
    if t.kind == "simplify":
        return f"Simplify({pretty(t.args[0])})"
    if t.kind == "stroke":
        return f"Stroke({pretty(t.args[0])},…)"
    if t.kind == "c2q":
        return f"C2Q({pretty(t.args[0])})"
    return t.kind


def _registry():
    ctx = C.cur()
    reg = getattr(ctx, "skia", None)
    if reg is None:
        reg = ctx.skia = {"by_coords": {}, "terms": [], "n": 0, "area": {}, "bounds": {}}
    return reg


_VERB_LETTER = {
    PathVerb.MOVE: "M",
    PathVerb.LINE: "L",
    PathVerb.QUAD: "Q",
    PathVerb.CUBIC: "C",
    PathVerb.CLOSE: "Z",
}


def unround(t):
    """strip round_n(.) wrappers of a z3 term"""
    while z3.is_app(t) and t.decl().name().startswith("sx_round_") and t.num_args() == 1:
        t = t.arg(0)
    return t


def coords_key(coords):
    ks = []
    for v in coords:
        if isinstance(v, SymReal):
            t = unround(z3.simplify(v.t))
            if z3.is_rational_value(t) or z3.is_int_value(t):
                ks.append(("q", str(C.frac_of_model_value(t))))
            else:
                C.cur().keepalive.append(t)  # ids are only unique among live terms
                ks.append(("t", t.get_id()))
        else:
            import fractions

            ks.append(("q", str(fractions.Fraction(v))))
    return tuple(ks)


def leaf_term(verbs, fill, coords):
    """Leaf, or the registered opaque term when the coordinates are exactly
    (modulo rounding wrappers) those of a previous abstract result."""
    reg = _registry()
    # only moves / nothing: no interior
    if all(v in ("M", "Z") for v in verbs):
        return Term("empty", (), ("empty",))
    ck = coords_key(coords)
    hit = reg["by_coords"].get((tuple(verbs), ck))
    if hit is not None:
        return hit
    keep = tuple(v.t for v in coords if isinstance(v, SymReal))
    exact = tuple(_strip(_ckey(v)) for v in coords)
    return Term(
        "leaf", (tuple(verbs), fill, tuple(coords)), ("leaf", tuple(verbs), int(fill), exact), keep
    )


class Path:
    def __init__(self, other=None, fillType=FillType.WINDING):
        if isinstance(other, Path):
            self.fillType = other.fillType
            self._segs = list(other._segs)
            self._term = other._term
        else:
            self.fillType = fillType
            self._segs = []  # (PathVerb, ((x,y),...))
            self._term = None  # opaque term overriding the leaf view

    # --- construction ---------------------------------------------------
    def moveTo(self, x, y):
        self._term = None
        self._segs.append((PathVerb.MOVE, ((x, y),)))

    def lineTo(self, x, y):
        self._term = None
        self._segs.append((PathVerb.LINE, ((x, y),)))

    def quadTo(self, x1, y1, x2, y2):
        self._term = None
        self._segs.append((PathVerb.QUAD, ((x1, y1), (x2, y2))))

    def cubicTo(self, x1, y1, x2, y2, x3, y3):
        self._term = None
        self._segs.append((PathVerb.CUBIC, ((x1, y1), (x2, y2), (x3, y3))))

    def close(self):
        self._term = None
        self._segs.append((PathVerb.CLOSE, ()))

    # --- views ----------------------------------------------------------
    def __iter__(self):
        return iter(list(self._segs))

    def __len__(self):
        return len(self._segs)

    @property
    def contours(self):
        """one view per contour (a MOVE starts a contour)"""
        out = []
        cur = None
        for seg in self._segs:
            if seg[0] == PathVerb.MOVE or cur is None:
                cur = []
                out.append(cur)
            cur.append(seg)
        return iter(out)

    @property
    def segments(self):
        return iter(list(self._segs))

    @property
    def verbs(self):
        return [v for v, _ in self._segs]

    @property
    def points(self):
        return [p for _, pts in self._segs for p in pts]

    def __len__(self):
        # real pathops: number of contours; an empty path is falsy
        return sum(1 for v, _ in self._segs if v == PathVerb.MOVE)

    @property
    def firstPoints(self):
        return [pts[0] for v, pts in self._segs if v == PathVerb.MOVE]

    @property
    def controlPointBounds(self):
        """bounds of all points incl. off-curve ones: exact for leaves; for opaque results some
        box that contains the (abstract) tight bounds"""
        from .values import sym_min, sym_max

        t = self.term
        if _polyline_only(t):
            return self.bounds
        if t.kind == "leaf" or t.kind == "empty":
            pts = self.points
            if not pts:
                return (0.0, 0.0, 0.0, 0.0)
            xs, ys = [p[0] for p in pts], [p[1] for p in pts]
            return (_fold(sym_min, xs), _fold(sym_min, ys), _fold(sym_max, xs), _fold(sym_max, ys))
        reg = _registry()
        b = reg.setdefault("cpbounds", {}).get(t.key)
        if b is None:
            n = len(reg["cpbounds"])
            tb = self.bounds
            b = tuple(SymReal(z3.Real(f"cpb!{n}!{i}")) for i in range(4))
            C.cur().axiom(z3.And(b[0].t <= term_of(tb[0]), b[1].t <= term_of(tb[1]), b[2].t >= term_of(tb[2]), b[3].t >= term_of(tb[3])))
            reg["cpbounds"][t.key] = b
        return b

    def reverse(self):
        # contour direction does not change the filled region under either rule for the terms
        # tracked here (opaque results are fill-rule independent; leaves keep their fill type)
        return None

    def reset(self):
        self._segs = []
        self._term = None

    rewind = reset

    def addPath(self, other):
        if self._term is not None or other._term is not None:
            raise C.Inconclusive("abstract Skia: addPath on an opaque result")
        self._segs.extend(other._segs)

    def __getattr__(self, name):
        if name.startswith("_"):
            raise AttributeError(name)
        raise C.Inconclusive(f"abstract Skia has no model of Path.{name}")

    def _flat(self):
        verbs = [_VERB_LETTER[v] for v, _ in self._segs]
        coords = [c for _, pts in self._segs for p in pts for c in p]
        return verbs, coords

    @property
    def term(self):
        if self._term is not None:
            return self._term
        verbs, coords = self._flat()
        return leaf_term(verbs, self.fillType, coords)

    def _become(self, term, may_be_empty=True):
        """replace geometry by the opaque contour of `term`"""
        reg = _registry()
        ctx = C.cur()
        known = reg.get("geo", {}).get(term.key)
        self._term = term
        self.fillType = FillType.WINDING
        if term.kind == "empty":
            self._segs = []
            return
        if known is None:
            n = reg["n"]
            reg["n"] += 1
            cs = [SymReal(z3.Real(f"geo!{n}!{i}")) for i in range(6)]
            known = cs
            reg.setdefault("geo", {})[term.key] = cs
            reg["terms"].append(term)
            reg["by_coords"][(("M", "L", "L", "Z"), coords_key(cs))] = term
        cs = known
        self._segs = [
            (PathVerb.MOVE, ((cs[0], cs[1]),)),
            (PathVerb.LINE, ((cs[2], cs[3]),)),
            (PathVerb.LINE, ((cs[4], cs[5]),)),
            (PathVerb.CLOSE, ()),
        ]

    # --- operations -----------------------------------------------------
    def transform(self, a, b, c, d, e, f):
        p = Path(fillType=self.fillType)
        for verb, pts in self._segs:
            p._segs.append(
                (verb, tuple((a * x + c * y + e, b * x + d * y + f) for x, y in pts))
            )
        t0 = self.term  # recognises opaque results rebuilt from their printed coordinates
        if t0.kind not in ("leaf", "empty"):
            aff = (a, b, c, d, e, f)
            key = ("xf", t0.key, tuple(_strip(_ckey(v)) for v in aff))
            keep = tuple(v.t for v in aff if isinstance(v, SymReal))
            t = Term("xf", (t0, aff), key, keep)
            p._term = t
            reg = _registry()
            verbs, coords = p._flat()
            reg["by_coords"][(tuple(verbs), coords_key(coords))] = t
        return p

    def _maybe_raise(self, what):
        ctx = C.cur()
        if ctx.opts.get("skia_may_raise"):
            if ctx.choose(2) == 1:
                ctx.trace_tags.append(f"skia-raise:{what}")
                raise PathOpsError(f"abstract Skia failure in {what}")

    def _maybe_empty(self, term):
        ctx = C.cur()
        if ctx.opts.get("skia_may_return_empty") and term.kind != "empty":
            if ctx.choose(2) == 1:
                ctx.trace_tags.append("skia-empty-result")
                return True
        return False

    def simplify(self, fix_winding=True, keep_starting_points=False, clockwise=False):
        self._maybe_raise("simplify")
        t = self.term
        if t.kind == "empty":
            self._segs = []
            self._term = t
            self.fillType = FillType.WINDING
            return
        if t.is_simple():
            # Simplify(simple) == simple, geometry unchanged (modelled idempotence)
            self._term = t
            self.fillType = FillType.WINDING
            return
        nt = Term("simplify", (t,), ("simplify", t.key))
        if self._maybe_empty(nt):
            reg = _registry()
            reg.setdefault("empty_results", []).append(nt)
            self._segs = []
            self._term = Term("empty", (), ("empty",))
            self.fillType = FillType.WINDING
            return
        self._become(nt)

    def stroke(self, width, cap, join, miter_limit, dash_array=(), dash_offset=0.0):
        t = self.term
        params = (width, cap, join, miter_limit, tuple(dash_array), dash_offset)
        flat = (width, miter_limit, *dash_array, dash_offset)
        key = (
            "stroke",
            t.key,
            int(cap),
            int(join),
            tuple(_strip(_ckey(v)) for v in flat),
        )
        keep = tuple(v.t for v in flat if isinstance(v, SymReal))
        nt = Term("stroke", (t, params), key, keep)
        self._become(nt)

    def convertConicsToQuads(self, tolerance=0.25):
        t = self.term
        key = ("c2q", t.key, _strip(_ckey(tolerance)))
        keep = (tolerance.t,) if isinstance(tolerance, SymReal) else ()
        nt = Term("c2q", (t, tolerance), key, keep)
        # geometry unchanged (no conics in the abstract contour), term records tol
        reg = _registry()
        verbs, coords = self._flat()
        self._term = nt
        reg["by_coords"][(tuple(verbs), coords_key(coords))] = nt

    @property
    def area(self):
        t = self.term
        if t.kind == "empty" or _no_interior(t):
            return 0.0
        reg = _registry()
        a = reg["area"].get(t.key)
        if a is None:
            n = len(reg["area"])
            a = SymReal(z3.Real(f"area!{n}"))
            reg["area"][t.key] = a
            reg.setdefault("area_terms", []).append((t, a))
            if C.cur().opts.get("assume_positive_area"):
                C.cur().axiom(a.t > 0)
            else:
                C.cur().axiom(a.t >= 0)
        return a

    @property
    def bounds(self):
        t = self.term
        reg = _registry()
        b = reg["bounds"].get(t.key)
        if b is not None:
            return b
        verbs, coords = self._flat()
        if t.kind == "leaf" and all(v in ("M", "L", "Z") for v in verbs) and coords:
            from .values import sym_min, sym_max

            xs, ys = coords[0::2], coords[1::2]
            b = (_fold(sym_min, xs), _fold(sym_min, ys), _fold(sym_max, xs), _fold(sym_max, ys))
        elif not coords:
            b = (0.0, 0.0, 0.0, 0.0)
        else:
            n = len(reg["bounds"])
            x1, y1, x2, y2 = (SymReal(z3.Real(f"bnd!{n}!{i}")) for i in range(4))
            C.cur().axiom(z3.And(x1.t <= x2.t, y1.t <= y2.t))
            b = (x1, y1, x2, y2)
        reg["bounds"][t.key] = b
        reg.setdefault("bounds_terms", []).append((t, b))
        return b

    def __eq__(self, o):
        return isinstance(o, Path) and self.term == o.term

    def __hash__(self):
        return id(self)


def _fold(f, xs):
    r = xs[0]
    for x in xs[1:]:
        r = f(r, x)
    return r


def op(one, two, operator, fix_winding=True, keep_starting_points=False, clockwise=False):
    ctx = C.cur()
    if ctx.opts.get("skia_may_raise"):
        if ctx.choose(2) == 1:
            ctx.trace_tags.append("skia-raise:op")
            raise PathOpsError("abstract Skia failure in op")
    t1, t2 = one.term, two.term
    nt = Term("op", (PathOp(operator), t1, t2), ("op", int(operator), t1.key, t2.key))
    p = Path()
    if p._maybe_empty(nt):
        reg = _registry()
        reg.setdefault("empty_results", []).append(nt)
        p._term = Term("empty", (), ("empty",))
        return p
    p._become(nt)
    return p
