"""One harness, two interpretations.

`SymH` wraps a symbolic `Ctx` + the privately loaded (instrumented) modules;
`ConH` runs the same harness concretely on the *normally imported* picosvg with
real floats (and real Skia) — this is the replay of a solver witness and the
translator-validation run.
"""
import fractions
import z3

from . import ctx as C
from .values import SymReal, SymBool, term_of


class Abort(BaseException):
    """concrete run cannot follow the witness (assumption false)"""


def _bt(x):
    if isinstance(x, SymBool):
        return x.t
    if isinstance(x, bool):
        return z3.BoolVal(x)
    return x  # z3 BoolRef


class SymH:
    symbolic = True

    def __init__(self, ctx, mods):
        self.ctx = ctx
        self.m = mods
        self.choices = {}

    # inputs / structure
    def real(self, name):
        return self.ctx.real(name)

    def choose(self, n, tag):
        k = self.ctx.choose(n)
        self.choices[tag] = k
        return k

    def pick(self, options, tag):
        return options[self.choose(len(options), tag)]

    def assume(self, cond):
        self.ctx.assume(_bt(cond) if not isinstance(cond, bool) else cond)

    # terms
    def eq(self, a, b, slack=None):
        return SymBool(term_of(a) == term_of(b))

    def close(self, a, b, tol):
        d = term_of(a) - term_of(b)
        tt = term_of(tol)
        return SymBool(z3.And(d <= tt, -d <= tt))

    def le(self, a, b):
        return SymBool(term_of(a) <= term_of(b))

    def lt(self, a, b):
        return SymBool(term_of(a) < term_of(b))

    def and_(self, *cs):
        return SymBool(z3.And(*[_bt(c) for c in cs])) if cs else True

    def or_(self, *cs):
        return SymBool(z3.Or(*[_bt(c) for c in cs])) if cs else False

    def not_(self, c):
        return SymBool(z3.Not(_bt(c)))

    def implies(self, a, b):
        return SymBool(z3.Implies(_bt(a), _bt(b)))

    def abs(self, a):
        t = term_of(a)
        return SymReal(z3.If(t >= 0, t, -t))

    def is_true(self, c):
        """fork on a harness-level condition"""
        if isinstance(c, bool):
            return c
        return self.ctx.branch(_bt(c))

    # assertions
    def check(self, cond, label, detail=None, robust=None):
        """robust: optional stronger violation formula; when the assertion is
        refuted and `robust` is satisfiable too, its model is the witness
        (survives float replay)."""
        if isinstance(cond, bool):
            if cond:
                self.ctx.checks += 1
                return True
            return self._record(self.ctx.fail(label, detail))
        ok = self.ctx.check(_bt(cond), label, detail)
        if ok is False and robust is not None:
            viol = z3.And(z3.Not(_bt(cond)), _bt(robust))  # still a violation, and robust
            model = None
            for eps in ("1", "1/100"):
                try:
                    model = C.interior_model(self.ctx.assertions, eps, extra=viol, timeout=2000)
                except z3.Z3Exception:
                    model = None
                if model is not None:
                    break
            if model is None:
                self.ctx.solver.set("timeout", 2000)
                try:
                    r = self.ctx._check(viol)
                finally:
                    self.ctx.solver.set("timeout", self.ctx.timeout_ms)
                if r == z3.sat:
                    model = self.ctx.solver.model()
            if model is not None:
                inputs = self.ctx.model_inputs(model)
                self.ctx.failures[-1].inputs = {k: str(v) for k, v in inputs.items()}
        return self._record(ok)

    def far(self, a, b, gap):
        d = term_of(a) - term_of(b)
        g = term_of(gap)
        return SymBool(z3.Or(d > g, -d > g))

    def _record(self, ok):
        if ok is False:
            self.ctx.failures[-1].detail = {
                "detail": self.ctx.failures[-1].detail,
                "choices": dict(self.choices),
            }
        return ok

    def check_eq(self, a, b, label, detail=None, robust=None):
        """a == b; on refutation prefer a witness with a visible gap"""
        ta, tb = term_of(a), term_of(b)
        verdict, model = self.ctx.valid(ta == tb)
        self.ctx.checks += 1
        if verdict == "valid":
            return True
        if verdict == "unknown":
            self.ctx.unknown_check += 1
            self.ctx.notes.append(f"unknown: {label}")
            return None
        gap = z3.RealVal(robust if robust is not None else "1/100")
        d = ta - tb
        r = self.ctx._check(z3.Or(d > gap, -d > gap))
        if r == z3.sat:
            model = self.ctx.solver.model()
        inputs = self.ctx.model_inputs(model)
        self.ctx.failures.append(
            C.Failure(
                label,
                {k: str(v) for k, v in inputs.items()},
                {"detail": detail, "choices": dict(self.choices)},
                tuple(self.ctx.decisions),
            )
        )
        return False

    def check_close(self, a, b, tol, label, detail=None):
        return self.check(self.close(a, b, tol), label, detail)

    def tag(self, s):
        self.ctx.trace_tags.append(s)


class ConH:
    """Concrete interpretation on the real package."""

    symbolic = False
    SLACK = 1e-7

    def __init__(self, mods, inputs, choices):
        self.m = mods
        self.inputs = inputs
        self.choices = dict(choices or {})
        self.failed = []  # labels
        self.passed = 0
        self.tags = []

    def real(self, name):
        v = self.inputs.get(name, 0)
        if isinstance(v, str):
            v = fractions.Fraction(v)
        return float(v)

    def choose(self, n, tag):
        if tag not in self.choices:
            raise Abort(f"no recorded choice for {tag}")
        return self.choices[tag]

    def pick(self, options, tag):
        return options[self.choose(len(options), tag)]

    def assume(self, cond):
        if not cond:
            raise Abort("assumption false under witness")

    def _s(self, *xs):
        return self.SLACK * (1 + sum(abs(x) for x in xs))

    def eq(self, a, b, slack=None):
        return abs(a - b) <= (slack if slack is not None else self._s(a, b))

    def close(self, a, b, tol):
        return abs(a - b) <= float(tol) + self._s(a, b)

    def le(self, a, b):
        return a <= b + self._s(a, b)

    def lt(self, a, b):
        return a < b

    def and_(self, *cs):
        return all(cs)

    def or_(self, *cs):
        return any(cs)

    def not_(self, c):
        return not c

    def implies(self, a, b):
        return (not a) or b

    def abs(self, a):
        return abs(a)

    def is_true(self, c):
        return bool(c)

    def check(self, cond, label, detail=None, robust=None):
        if cond:
            self.passed += 1
            return True
        self.failed.append((label, detail))
        return False

    def far(self, a, b, gap):
        return abs(a - b) > gap

    def check_eq(self, a, b, label, detail=None, robust=None):
        return self.check(self.eq(a, b), label, (detail, a, b))

    def check_close(self, a, b, tol, label, detail=None):
        return self.check(self.close(a, b, tol), label, (detail, a, b, tol))

    def tag(self, s):
        self.tags.append(s)


class RealMods:
    """attribute access to the normally imported picosvg modules"""

    def __getattr__(self, name):
        import importlib

        return importlib.import_module("picosvg." + name)


def replay_concrete(harness, failure, allowed_exceptions=()):
    """Run `harness(h)` concretely with the witness; reproduced iff the same
    label fails on the real package.  The solver's second witness (generic position,
    ctx.spread_model) is tried when the first does not reproduce."""
    r = _replay_one(harness, failure, allowed_exceptions)
    alts = failure.get("alt_inputs") or []
    if isinstance(alts, dict):
        alts = [alts]
    for alt in alts:
        if r.get("reproduced"):
            break
        f2 = dict(failure)
        f2["inputs"] = alt
        r2 = _replay_one(harness, f2, allowed_exceptions)
        if r2.get("reproduced"):
            r2["detail"] += " (alternative witness: generic position / faithful rounding)"
            return r2
    return r


def _replay_one(harness, failure, allowed_exceptions=()):
    det = failure.get("detail") or {}
    choices = det.get("choices", {}) if isinstance(det, dict) else {}
    h = ConH(RealMods(), failure["inputs"], choices)
    try:
        with C.concrete_context():
            harness(h)
    except Abort as e:
        return {"reproduced": False, "detail": f"abort: {e}"}
    except allowed_exceptions as e:  # pragma: no cover
        return {"reproduced": False, "detail": f"exception {type(e).__name__}: {e}"}
    labels = [l for l, _ in h.failed]
    # "x.structure" / "x.numbers" are facets of one assertion: the same assertion failing on the
    # real package reproduces the finding whichever facet shows first
    base = failure["label"].split(".")[0]
    ok = failure["label"] in labels or any(l.split(".")[0] == base for l in labels)
    return {
        "reproduced": ok,
        "detail": f"concrete failed labels={labels[:5]} passed={h.passed}",
        "concrete": [repr(d)[:300] for l, d in h.failed if l == failure["label"]][:2],
        "inputs": {k: float(fractions.Fraction(v)) for k, v in failure["inputs"].items()},
    }
