"""Pipeline harness support: run the real SVG class on template documents under
the loader and compare the *rendering* of source and output (DESIGN 'Pipeline
properties - common set-up').

Symbolic mode: regions are abstract-Skia terms; coverage of a symbolic sample
point by each identified leaf/stroke is a Boolean atom; composited colour and
alpha of source and output must be equal for every atom assignment, colour and
numeric value (one SMT validity query per path).

Concrete mode (replay / translator validation): real Skia output; regions are
evaluated at a grid of sample points by an independent winding-number / stroke
distance evaluator (three-valued near edges).
"""
import fractions
import math
import re

import z3
from lxml import etree

from . import fake_pathops as FP
from . import regions
from .spec import render as R
from .spec import path_interp as PI
from .spec import winding as W
from .values import SymReal, SymBool, term_of, from_placeholder, PH_OPEN, sym_min, sym_max

F = fractions.Fraction


def parse_xml(text):
    parser = etree.XMLParser(remove_comments=True, remove_blank_text=True, resolve_entities=False)
    return etree.fromstring(text.encode("utf-8"), parser)


def sym_num(s):
    if isinstance(s, (int, float, SymReal)):
        return s
    s = s.strip()
    pct = s.endswith("%")
    if pct:
        s = s[:-1]
    if PH_OPEN in s:
        v = from_placeholder(s)
        if v is None:
            raise R.Unsupported(f"number {s!r}")
    else:
        v = F(s) if re.fullmatch(r"[-+]?\d*\.?\d+", s) else float(s)
    return v / 100 if pct else v


def con_num(s):
    if isinstance(s, (int, float)):
        return float(s)
    s = s.strip()
    if s.endswith("%"):
        return float(s[:-1]) / 100
    return float(s)


def make_spec(h):
    if h.symbolic:
        from . import symmath as sm

        return R.Spec(sym_num, (sm.sin, sm.cos, sm.tan, sm.radians), mn=sym_min, mx=sym_max, truth=lambda c: h.is_true(c) if not isinstance(c, bool) else c, absf=h.abs)
    return R.Spec(con_num, (math.sin, math.cos, math.tan, math.radians))


def tok(h, v):
    if isinstance(v, str):
        return v
    if h.symbolic:
        return str(v)
    if isinstance(v, float):
        return repr(v)
    return str(v)


def region_of_d_factory(h):
    T = h.m.svg_types

    def region_of_d(d, fill_rule):
        cmds = [(c, tuple(a)) for c, a in T.SVGPath(d=d)]
        verbs, coords = [], []
        for c, a in cmds:
            if c not in "MLQCZ":
                raise R.Unsupported(f"output command {c}")
            verbs.append(c)
            coords += list(a)
        return FP.leaf_term(verbs, FP.FillType.EVEN_ODD if fill_rule == "evenodd" else FP.FillType.WINDING, coords)

    return region_of_d


# ---------------------------------------------------------------- symbolic compositing
class SymCompositor:
    def __init__(self, ctx):
        self.ctx = ctx
        self.atoms = regions.Atoms(ctx)
        self.colors = {}

    def color(self, paint):
        c = self.colors.get(paint)
        if c is None:
            c = self.colors[paint] = z3.Real(f"col!{len(self.colors)}")
        return c

    def comp(self, node):
        """-> (premultiplied colour, alpha) z3 terms"""
        if isinstance(node, R.Paint):
            cov = regions.formula(node.region, self.atoms)
            a = term_of(node.alpha)
            a = z3.If(a < 0, z3.RealVal(0), z3.If(a > 1, z3.RealVal(1), a))
            return z3.If(cov, a * self.color(node.paint), z3.RealVal(0)), z3.If(cov, a, z3.RealVal(0))
        C, A = z3.RealVal(0), z3.RealVal(0)
        for ch in node.children:
            c, a = self.comp(ch)
            C = c + C * (1 - a)
            A = a + A * (1 - a)
        o = term_of(node.opacity)
        o = z3.If(o < 0, z3.RealVal(0), z3.If(o > 1, z3.RealVal(1), o))
        return C * o, A * o


class SkiaCallRecorder:
    """Concrete runs only: records the questions picosvg asks the real Skia
    (stroke parameters, conic tolerance) by substituting a recording subclass of
    pathops.Path inside picosvg.svg_pathops for the duration of a conversion."""

    def __init__(self):
        self.strokes = []
        self.tolerances = []

    def __enter__(self):
        import pathops
        import picosvg.svg_pathops as P
        import types

        rec = self

        class RecPath(pathops.Path):
            def stroke(self, width, cap, join, miter_limit, dash_array=(), dash_offset=0.0):
                rec.strokes.append((float(width), int(cap), int(join), float(miter_limit), tuple(float(d) for d in dash_array), float(dash_offset)))
                return super().stroke(width, cap, join, miter_limit, dash_array, dash_offset)

            def convertConicsToQuads(self, tolerance=0.25):
                rec.tolerances.append(float(tolerance))
                return super().convertConicsToQuads(tolerance)

        proxy = types.ModuleType("pathops_recording_proxy")
        proxy.__dict__.update(pathops.__dict__)
        proxy.Path = RecPath
        self._P, self._orig = P, P.pathops
        P.pathops = proxy
        return self

    def __exit__(self, *a):
        self._P.pathops = self._orig


def _spec_strokes(node, out):
    if isinstance(node, R.Paint):
        if node.tag == "stroke":
            t = node.region
            while t.kind in ("xf", "simplify", "c2q", "op"):
                if t.kind == "c2q":
                    out.append(("tol", t.args[1]))
                t = t.args[1] if t.kind == "op" else t.args[0]
            if t.kind == "stroke":
                out.append(("stroke", t.args[1]))
    else:
        for ch in node.children:
            _spec_strokes(ch, out)


def concrete_glue_check(h, src, rec, label):
    """the parameters handed to the real stroker == the cascade values (document order)"""
    want = []
    _spec_strokes(src, want)
    ws = [p for k, p in want if k == "stroke"]
    wt = [float(p) for k, p in want if k == "tol"]
    ok = len(ws) == len(rec.strokes)
    detail = {"spec": repr(ws)[:300], "asked": repr(rec.strokes)[:300]}
    if ok:
        # the conversion visits elements leaves-first: compare as multisets
        exps = sorted((float(w), int(cap), int(join), float(miter), tuple(float(d) for d in dashes), float(off)) for (w, cap, join, miter, dashes, off) in ws)
        for exp, got in zip(exps, sorted(rec.strokes)):
            if exp[1:3] != got[1:3] or len(exp[4]) != len(got[4]):
                ok = False
                break
            nums_e = [exp[0], exp[3], exp[5], *exp[4]]
            nums_g = [got[0], got[3], got[5], *got[4]]
            if any(abs(a - b) > 1e-9 * (1 + abs(a)) for a, b in zip(nums_e, nums_g)):
                ok = False
                break
    if ok and wt and rec.tolerances:
        if any(abs(a - b) > 1e-12 * (1 + abs(a)) for a, b in zip(wt, rec.tolerances)):
            ok = False
            detail["tolerance"] = (wt, rec.tolerances)
    return h.check(ok, label, detail=detail)


def same_rendering(h, src_text, out_text, label, tolerance=None, skia_calls=None):
    """composite(source) == composite(output) at every sample point"""
    spec = make_spec(h)
    try:
        src = spec.render(parse_xml(src_text), tolerance=tolerance)
        out = R.read_pico(parse_xml(out_text), sym_num if h.symbolic else con_num, region_of_d_factory(h))
    except R.Unsupported as e:
        return h.check(False, label + ".unsupported_in_oracle", detail=str(e))
    if h.symbolic:
        sc = SymCompositor(h.ctx)
        Cs, As = sc.comp(src)
        Co, Ao = sc.comp(out)
        cons = [z3.And(c >= 0, c <= 1) for c in sc.colors.values()]
        # results the abstract Skia returned as EMPTY on this path (explorer-forked when the harness
        # sets skia_may_return_empty): the path is only about inputs for which that region is empty
        for nt in FP._registry().get("empty_results", []):
            cons.append(z3.Not(regions.formula(nt, sc.atoms)))
        goal = z3.Implies(z3.And(*cons) if cons else z3.BoolVal(True), z3.And(Cs == Co, As == Ao))
        # prefer a witness in which numbers that failed to be identified really differ
        # (gap >= 1/100): the coverage atoms alone do not force the numbers apart
        rob = None
        if sc.atoms.failed_eqs:
            parts = []
            for fe in sc.atoms.failed_eqs:
                for eq in (fe.children() if z3.is_and(fe) else [fe]):
                    d = eq.arg(0) - eq.arg(1)
                    parts.append(z3.Or(d > z3.RealVal("1/100"), -d > z3.RealVal("1/100")))
            rob = SymBool(z3.Or(*parts))
        ok = h.check(SymBool(goal), label, detail={"src": repr(src)[:500], "out": repr(out)[:500]}, robust=rob)
        return ok
    ok = concrete_same_rendering(h, src, out, label)
    if skia_calls is not None:
        # glue-level replay: were the right questions put to the real Skia?
        ok2 = concrete_glue_check(h, src, skia_calls, label)
        return ok and ok2
    return ok


# ---------------------------------------------------------------- concrete evaluation
def _segs_of_leaf(t):
    verbs, fill, coords = t.args
    cmds = []
    i = 0
    for v in verbs:
        n = {"M": 2, "L": 2, "Q": 4, "C": 6, "Z": 0}[v]
        cmds.append((v, tuple(float(c) for c in coords[i : i + n])))
        i += n
    return PI.interp(cmds), ("evenodd" if fill == FP.FillType.EVEN_ODD else "nonzero")


def eval_region(t, q, band):
    """True / False / None (too close to an edge or not evaluable)"""
    k = t.kind
    if k == "empty":
        return False
    if k == "simplify" or k == "c2q":
        return eval_region(t.args[0], q, band)
    if k == "leaf":
        segs, rule = _segs_of_leaf(t)
        polys = W.contours(segs)
        if not polys:
            return False
        if W.edge_distance(polys, q) < band:
            return None
        return W.inside(polys, q, rule)
    if k == "op":
        op, a, b = t.args
        ra, rb = eval_region(a, q, band), eval_region(b, q, band)
        if op == FP.PathOp.UNION:
            if ra is True or rb is True:
                return True
            return None if (ra is None or rb is None) else False
        if op == FP.PathOp.INTERSECTION:
            if ra is False or rb is False:
                return False
            return None if (ra is None or rb is None) else True
        if op == FP.PathOp.DIFFERENCE:
            if ra is False or rb is True:
                return False
            return None if (ra is None or rb is None) else True
        return None
    if k == "xf":
        child, m = t.args
        a, b, c, d, e, f = [float(x) for x in m]
        det = a * d - b * c
        if abs(det) < 1e-12:
            return None
        x, y = q[0] - e, q[1] - f
        qi = ((d * x - c * y) / det, (-b * x + a * y) / det)
        scale = math.sqrt(abs(det))
        return eval_region(child, qi, band / max(scale, 1e-9))
    if k == "stroke":
        child, (w, cap, join, miter, dashes, off) = t.args
        if dashes:
            return None
        segs, _ = _segs_of_leaf(child)
        polys_open = _polylines(segs)
        if not polys_open:
            return False
        half = float(w) / 2
        best = (float("inf"), False)
        for poly, closed in polys_open:
            d, at_vertex = _dist_polyline(poly, q, closed)
            if d < best[0]:
                best = (d, at_vertex)
        dist, at_vertex = best
        if dist > half * max(float(miter), 1.5) + band:
            return False
        if at_vertex:
            # near a cap or a join the covered set depends on cap/join/miter geometry (Skia's)
            return None
        # away from caps and joins: inside iff closer than w/2
        if dist < half - band:
            return True
        if dist > half + band:
            return False
        return None
    return None


def _polylines(segs):
    """[(points, closed?)] per subpath, curves flattened"""
    out, cur = [], None
    for s in segs:
        if s[0] == "M":
            cur = [[s[1]], False]
            out.append(cur)
            continue
        if cur is None:
            cur = [[s[1]], False]
            out.append(cur)
        pts = W._flatten_seg(s, 32)
        cur[0].extend(pts[1:])
        if s[0] == "Z":
            cur[1] = True
            cur = None
    return [(p, c) for p, c in out if len(p) > 1]


def _dist_polyline(poly, q, closed):
    """(distance, closest point is a corner/end of the polyline)"""
    best = float("inf")
    at_vertex = False
    for i in range(len(poly) - 1):
        x0, y0 = poly[i]
        x1, y1 = poly[i + 1]
        dx, dy = x1 - x0, y1 - y0
        L = dx * dx + dy * dy
        t = 0.0 if L == 0 else ((q[0] - x0) * dx + (q[1] - y0) * dy) / L
        tc = max(0.0, min(1.0, t))
        d = math.hypot(q[0] - x0 - tc * dx, q[1] - y0 - tc * dy)
        if d < best - 1e-12:
            best = d
            at_vertex = L == 0 or t <= 0.02 or t >= 0.98
    return best, at_vertex


def _collect_leaves(node, out):
    if isinstance(node, R.Paint):
        _collect_terms(node.region, out)
    else:
        for ch in node.children:
            _collect_leaves(ch, out)


def _collect_terms(t, out):
    if t.kind == "leaf":
        out.append(t)
    elif t.kind in ("simplify", "c2q", "stroke"):
        _collect_terms(t.args[0], out)
    elif t.kind == "xf":
        out.append(t)
    elif t.kind == "op":
        _collect_terms(t.args[1], out)
        _collect_terms(t.args[2], out)


def _comp_concrete(node, q, band, colors):
    if isinstance(node, R.Paint):
        cov = eval_region(node.region, q, band)
        if cov is None:
            return None
        a = min(1.0, max(0.0, float(node.alpha)))
        c = colors.setdefault(node.paint, 0.15 + 0.7 * ((len(colors) * 0.37) % 1.0))
        return (a * c, a) if cov else (0.0, 0.0)
    C, A = 0.0, 0.0
    for ch in node.children:
        r = _comp_concrete(ch, q, band, colors)
        if r is None:
            return None
        c, a = r
        C = c + C * (1 - a)
        A = a + A * (1 - a)
    o = min(1.0, max(0.0, float(node.opacity)))
    return C * o, A * o


def concrete_same_rendering(h, src, out, label):
    pts = []
    leaves = []
    _collect_leaves(src, leaves)
    _collect_leaves(out, leaves)
    xs, ys = [], []
    for t in leaves:
        if t.kind == "leaf":
            cs = [float(c) for c in t.args[2]]
            xs += cs[0::2]
            ys += cs[1::2]
    if not xs:
        return h.check(True, label)
    b = (min(xs), min(ys), max(xs), max(ys))
    size = max(b[2] - b[0], b[3] - b[1], 1e-9)
    band = 0.004 * size * 3
    colors = {}
    bad = []
    n_eval = 0
    for q in W.grid(b, n=33, pad=0.2):
        rs = _comp_concrete(src, q, band, colors)
        ro = _comp_concrete(out, q, band, colors)
        if rs is None or ro is None:
            continue
        n_eval += 1
        if abs(rs[0] - ro[0]) > 1e-6 or abs(rs[1] - ro[1]) > 1e-6:
            bad.append((q, rs, ro))
    # a handful of isolated disagreeing samples is flattening/float32 noise at edges
    noisy = len(bad) < max(3, 0.004 * n_eval)
    return h.check(not bad or noisy, label, detail={"mismatching_points": len(bad), "evaluated": n_eval, "first": repr(bad[:1])[:300]})
