"""Symbolic values (DESIGN 1.2): z3-backed real numbers and booleans.

Floats are modelled as reals.  Anything that would silently concretise a
symbolic value raises `Concretize` (loud, turns the path inconclusive).
"""
import fractions
import math
import numbers
import z3

from . import ctx as C
from .ctx import Concretize

PH_OPEN = "§"  # '§'


class SymStrBase:
    """Marker base for symbolic strings (sx.symstr)."""


def _const_term(v):
    if isinstance(v, bool):
        return z3.RealVal(int(v))
    if isinstance(v, int):
        return z3.RealVal(v)
    if isinstance(v, float):
        if v != v or v in (math.inf, -math.inf):
            raise Concretize(f"non-finite float {v!r} meets symbolic value")
        fr = fractions.Fraction(v)
        return z3.RealVal(f"{fr.numerator}/{fr.denominator}")
    if isinstance(v, fractions.Fraction):
        return z3.RealVal(f"{v.numerator}/{v.denominator}")
    return None


def term_of(v):
    if isinstance(v, SymReal):
        return v.t
    t = _const_term(v)
    if t is None:
        raise TypeError(f"not a number: {v!r}")
    return t


def is_sym(v):
    return isinstance(v, (SymReal, SymBool))


class SymBool:
    __slots__ = ("t",)

    def __init__(self, t):
        self.t = t

    def __bool__(self):
        return C.cur().branch(self.t)

    def __and__(self, o):
        return SymBool(z3.And(self.t, _bterm(o)))

    __rand__ = __and__

    def __or__(self, o):
        return SymBool(z3.Or(self.t, _bterm(o)))

    __ror__ = __or__

    def __invert__(self):
        return SymBool(z3.Not(self.t))

    def __eq__(self, o):
        if isinstance(o, (bool, SymBool)):
            return SymBool(self.t == _bterm(o))
        return NotImplemented

    def __hash__(self):
        raise Concretize("hash of symbolic bool")

    def __repr__(self):
        return f"SymBool({self.t})"

    def __deepcopy__(self, memo):
        return self


def _bterm(o):
    if isinstance(o, SymBool):
        return o.t
    if isinstance(o, bool):
        return z3.BoolVal(o)
    raise TypeError(f"not a bool: {o!r}")


def _other(o):
    if isinstance(o, SymReal):
        return o.t
    return _const_term(o)


class SymReal:
    __slots__ = ("t",)

    def __init__(self, t):
        self.t = t

    # --- arithmetic -----------------------------------------------------
    def __add__(self, o):
        ot = _other(o)
        if ot is None:
            return NotImplemented
        return SymReal(self.t + ot)

    def __radd__(self, o):
        ot = _other(o)
        if ot is None:
            return NotImplemented
        return SymReal(ot + self.t)

    def __sub__(self, o):
        ot = _other(o)
        if ot is None:
            return NotImplemented
        return SymReal(self.t - ot)

    def __rsub__(self, o):
        ot = _other(o)
        if ot is None:
            return NotImplemented
        return SymReal(ot - self.t)

    def __mul__(self, o):
        ot = _other(o)
        if ot is None:
            return NotImplemented
        return SymReal(self.t * ot)

    def __rmul__(self, o):
        ot = _other(o)
        if ot is None:
            return NotImplemented
        return SymReal(ot * self.t)

    def __truediv__(self, o):
        ot = _other(o)
        if ot is None:
            return NotImplemented
        return _div(self.t, ot)

    def __rtruediv__(self, o):
        ot = _other(o)
        if ot is None:
            return NotImplemented
        return _div(ot, self.t)

    def __mod__(self, o):
        """Python float modulo: x - m*floor(x/m) (sign of the divisor)"""
        from . import symmath

        if _other(o) is None:
            return NotImplemented
        q = self / o  # forks on a zero divisor like Python (ZeroDivisionError)
        return self - o * symmath.floor(q)

    def __rmod__(self, o):
        from . import symmath

        if _other(o) is None:
            return NotImplemented
        q = o / self
        return o - self * symmath.floor(q)

    def __floordiv__(self, o):
        from . import symmath

        if _other(o) is None:
            return NotImplemented
        return symmath.floor(self / o)

    def __neg__(self):
        return SymReal(-self.t)

    def __pos__(self):
        return self

    def __abs__(self):
        return SymReal(z3.If(self.t >= 0, self.t, -self.t))

    def __pow__(self, o, mod=None):
        if isinstance(o, int) and not isinstance(o, bool) and 0 <= o <= 8 and mod is None:
            r = z3.RealVal(1)
            for _ in range(o):
                r = r * self.t
            return SymReal(r)
        raise Concretize(f"pow with exponent {o!r}")

    def __round__(self, ndigits=None):
        from . import symmath

        return symmath.sym_round(self, ndigits)

    # --- comparisons ----------------------------------------------------
    def _cmp(self, o, f):
        ot = _other(o)
        if ot is None:
            return NotImplemented
        return SymBool(f(self.t, ot))

    def __lt__(self, o):
        return self._cmp(o, lambda a, b: a < b)

    def __le__(self, o):
        return self._cmp(o, lambda a, b: a <= b)

    def __gt__(self, o):
        return self._cmp(o, lambda a, b: a > b)

    def __ge__(self, o):
        return self._cmp(o, lambda a, b: a >= b)

    def __eq__(self, o):
        ot = _other(o)
        if ot is None:
            return False  # number vs non-number, as Python
        return SymBool(self.t == ot)

    def __ne__(self, o):
        ot = _other(o)
        if ot is None:
            return True
        return SymBool(self.t != ot)

    def __bool__(self):
        return C.cur().branch(self.t != 0)

    def __hash__(self):
        # opt sym_hash: every symbolic number hashes alike, so dict/set lookups fall through to
        # __eq__ (a solver-decided fork).  A symbolic key never meets a LITERAL float key this way
        # (different hash): coincidences of a symbolic number with a literal inside a hashed key
        # are outside the claim (stated as the generic-position assumption of the harness)
        if C.cur().opts.get("sym_hash"):
            return 0x5B
        raise Concretize("hash of symbolic number")

    # --- float protocol bits the code uses --------------------------------
    def is_integer(self):
        # printing stub (DESIGN 1.1): a symbolic number prints as its placeholder
        return False

    def __float__(self):
        raise Concretize("float() of symbolic number inside C code")

    def __int__(self):
        raise Concretize("int() of symbolic number")

    def __index__(self):
        raise Concretize("index() of symbolic number")

    def __str__(self):
        return placeholder(self)

    __repr__ = __str__

    def __format__(self, spec):
        if spec:
            raise Concretize(f"format spec {spec!r} on symbolic number")
        return placeholder(self)

    def __deepcopy__(self, memo):
        return self

    def __copy__(self):
        return self

    def __reduce__(self):
        raise Concretize("pickle of symbolic number")


numbers.Real.register(SymReal)


def _div(n, d):
    """Python division: ZeroDivisionError on a zero divisor (forked), otherwise
    the quotient.  A non-constant divisor is *cleared*: the quotient is a fresh
    variable q with q*d == n (sound because d != 0 on this path), which keeps
    every query polynomial (DESIGN probe P7: rational form = unknown)."""
    ctx = C.cur()
    d = z3.simplify(d)
    if z3.is_rational_value(d) or z3.is_int_value(d):
        if C.frac_of_model_value(d) == 0:
            raise ZeroDivisionError("float division by zero")
        return SymReal(n / d)
    if ctx.branch(d == 0):
        raise ZeroDivisionError("float division by zero")
    n = z3.simplify(n)
    key = ("div", n.get_id(), d.get_id())
    q = ctx.div_cache.get(key)
    if q is None:
        q = z3.Real(f"quot!{len(ctx.div_cache)}")
        ctx.div_cache[key] = q
        ctx.keepalive.append((n, d))
        ctx._add(q * d == n)
    return SymReal(q)


def sym_ite(cond_t, a, b):
    return SymReal(z3.If(cond_t, term_of(a), term_of(b)))


def sym_min(*args, **kw):
    if len(args) == 1 and not kw:
        args = tuple(args[0])
    if kw or not any(isinstance(a, SymReal) for a in args):
        import builtins

        return builtins.min(*args, **kw)
    r = args[0]
    for a in args[1:]:
        # Python: min returns the first minimal element -> strict <
        r = sym_ite(term_of(a) < term_of(r), a, r)
    return r


def sym_max(*args, **kw):
    if len(args) == 1 and not kw:
        args = tuple(args[0])
    if kw or not any(isinstance(a, SymReal) for a in args):
        import builtins

        return builtins.max(*args, **kw)
    r = args[0]
    for a in args[1:]:
        r = sym_ite(term_of(a) > term_of(r), a, r)
    return r


# --- placeholders ------------------------------------------------------------
def placeholder(v):
    """Opaque token for a symbolic number travelling through str / lxml / re."""
    ctx = C.cur()
    # simplify only to recognise a number printed before; the token maps back to
    # the ORIGINAL term (z3.simplify rewrites `x*y >= 0` inside abs() into sign
    # conditions on the factors, which hurts later queries)
    t = z3.simplify(v.t)
    tid = t.get_id()
    tok = ctx.ph_by_id.get(tid)
    if tok is None:
        tok = f"{PH_OPEN}{len(ctx.placeholders)}{PH_OPEN}"
        ctx.placeholders[tok] = v.t
        ctx.ph_by_id[tid] = tok
        ctx.keepalive.append(t)
    return tok


def from_placeholder(s):
    """'§k§' -> SymReal, else None"""
    ctx = C.cur()
    t = ctx.placeholders.get(s)
    if t is None:
        return None
    return SymReal(t)


# --- replacement for the `float` builtin --------------------------------------
class _SxFloatMeta(type):
    def __call__(cls, *args, **kw):
        if cls is SxFloat:
            if len(args) == 1 and not kw:
                a = args[0]
                if isinstance(a, SymReal):
                    return a
                if isinstance(a, str) and PH_OPEN in a:
                    s = a.strip()
                    v = from_placeholder(s)
                    if v is not None:
                        return v
                    neg = False
                    if s[:1] in "+-":
                        neg = s[0] == "-"
                        v = from_placeholder(s[1:])
                        if v is not None:
                            return -v if neg else v
                    raise ValueError(f"could not convert string to float: {a!r}")
                if isinstance(a, SymStrBase):
                    return a.to_float()
            return float(*args, **kw)
        return super().__call__(*args, **kw)

    def __instancecheck__(cls, obj):
        if cls is SxFloat:
            return isinstance(obj, (float, SymReal))
        return type.__instancecheck__(cls, obj)


class SxFloat(float, metaclass=_SxFloatMeta):
    """Stands in for `float` inside the loaded picosvg modules."""


def sx_isinstance(obj, classinfo):
    if hasattr(obj, "__sx_isinstance__"):
        return obj.__sx_isinstance__(classinfo)
    if isinstance(obj, SymReal):
        cs = classinfo if isinstance(classinfo, tuple) else (classinfo,)
        for c in cs:
            if isinstance(c, tuple):
                if sx_isinstance(obj, c):
                    return True
            elif c in (float, SxFloat, numbers.Number, numbers.Real, numbers.Complex, object, SymReal):
                return True
        return False
    return isinstance(obj, classinfo)


class _SxIntMeta(type):
    def __call__(cls, *args, **kw):
        if cls is SxInt:
            if len(args) == 1 and not kw:
                a = args[0]
                if hasattr(a, "__sx_int__"):
                    return a.__sx_int__()
                if isinstance(a, SymReal):
                    # enumerate the integral value (used by int(ceil(..)) only)
                    ctx = C.cur()
                    t = z3.simplify(a.t)
                    if z3.is_rational_value(t) or z3.is_int_value(t):
                        fr = C.frac_of_model_value(t)
                        return int(fr)
                    bound = ctx.opts.get("int_enum_bound", 8)
                    for k in range(0, bound + 1):
                        if ctx.branch(a.t == k):
                            return k
                    raise C.Inconclusive(
                        "int() of symbolic number outside enumeration bound"
                    )
                if isinstance(a, SymStrBase):
                    return a.to_int()
            return int(*args, **kw)
        return super().__call__(*args, **kw)

    def __instancecheck__(cls, obj):
        if cls is SxInt:
            return isinstance(obj, int)
        return type.__instancecheck__(cls, obj)


class SxInt(int, metaclass=_SxIntMeta):
    """Stands in for `int` inside the loaded picosvg modules."""


# --- replacement for the `str` builtin (only where a harness asks: C10 printing) ----
class _SxStrMeta(type):
    def __call__(cls, *args, **kw):
        if cls is SxStr:
            if len(args) == 1 and not kw and hasattr(args[0], "__sx_str__"):
                return args[0].__sx_str__()
            return str(*args, **kw)
        return super().__call__(*args, **kw)

    def __instancecheck__(cls, obj):
        if cls is SxStr:
            return isinstance(obj, (str, SymStrBase))
        return type.__instancecheck__(cls, obj)


class SxStr(str, metaclass=_SxStrMeta):
    """Stands in for `str` inside modules loaded with extra_builtins={'str': SxStr, 'repr': sx_repr}:
    str(x) of an object with __sx_str__ yields its symbolic string."""


def sx_repr(x):
    if hasattr(x, "__sx_str__"):
        return x.__sx_str__()
    return repr(x)
