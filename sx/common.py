"""Shared plumbing for check modules: per-process module cache, the standard
run_case loop (explore + translator validation + vacuity twin + tracing)."""
import fractions
import time

from . import loader
from . import ctx as C
from .ctx import explore
from .dual import SymH, ConH, RealMods, Abort
from .values import SymReal

_MODS = {}


def mods(fake_skia=True, lex_placeholders=True):
    key = (fake_skia, lex_placeholders)
    m = _MODS.get(key)
    if m is None:
        m = _MODS[key] = loader.load(fake_skia=fake_skia, lex_placeholders=lex_placeholders)
    return m


_OPAQUE = ("sx_sin", "sx_cos", "sx_tan", "sx_atan2", "sx_round_", "sx_ceil", "geo!", "area!", "bnd!", "ac!")


def _has_opaque(t, seen=None):
    """does the term mention a symbol whose model value is not the real function's?"""
    import z3

    if seen is None:
        seen = set()
    stack = [t]
    while stack:
        x = stack.pop()
        i = x.get_id()
        if i in seen:
            continue
        seen.add(i)
        if z3.is_app(x):
            nm = x.decl().name()
            if x.decl().kind() == z3.Z3_OP_UNINTERPRETED and nm.startswith(_OPAQUE):
                return True
            stack.extend(x.children())
    return False


SKIP = "<opaque>"


def eval_obs(ctx, model, obs):
    """evaluate a nested observable structure under a model -> floats/strs"""
    if isinstance(obs, SymReal):
        if _has_opaque(obs.t):
            return SKIP
        return float(C.frac_of_model_value(model.eval(obs.t, model_completion=True)))
    if isinstance(obs, (list, tuple)):
        return [eval_obs(ctx, model, o) for o in obs]
    if isinstance(obs, dict):
        return {k: eval_obs(ctx, model, v) for k, v in obs.items()}
    if isinstance(obs, bool) or obs is None or isinstance(obs, str):
        return obs
    if isinstance(obs, (int, float)):
        return float(obs)
    return repr(obs)


def same_obs(a, b, tol=1e-6):
    if isinstance(a, (list, tuple)) and isinstance(b, (list, tuple)):
        return len(a) == len(b) and all(same_obs(x, y, tol) for x, y in zip(a, b))
    if isinstance(a, dict) and isinstance(b, dict):
        return a.keys() == b.keys() and all(same_obs(a[k], b[k], tol) for k in a)
    if a == SKIP or b == SKIP:
        return True
    if isinstance(a, bool) or isinstance(b, bool) or a is None or b is None:
        return a == b
    if isinstance(a, (int, float)) and isinstance(b, (int, float)):
        return abs(a - b) <= tol * (1 + abs(a) + abs(b))
    return a == b


def interior_model(ctx, eps_list=("1", "1/100", "1/1000000")):
    """largest-margin interior model (big margins keep float32 Skia meaningful)"""
    for eps in eps_list:
        m = _interior_model(ctx, eps)
        if m is not None:
            if True:
                # no uniform margin 1 (e.g. an opacity decided to lie strictly inside (0,1)): keep this
                # margin and move as many inputs as possible to moderate, distinct values - geometry
                # at the 1e-2 scale is below what float32 Skia resolves
                try:
                    sm = C.spread_model(ctx.assertions, None, ctx.inputs, eps=eps)
                except Exception:
                    sm = None
                if sm is not None:
                    return sm
            return m
    return None


def _interior_model(ctx, eps="1/1000000"):
    return C.interior_model(ctx.assertions, eps)


def run_symbolic(
    harness,
    *,
    mods_,
    timeout_ms=10000,
    max_paths=200000,
    opts=None,
    validate_every=25,
    trace_first=2,
    twin=True,
    deadline=None,
    sample_inputs=True,
    allowed=(),
    compare_obs=True,
):
    """Explore harness(h) symbolically.  `harness(h)` returns observables.

    * translator validation: on every `validate_every`-th completed path a
      model of the path condition is made concrete and the same harness is run
      on the real package; its checks must pass and its observables agree.
    * vacuity twin: on each path the assertion `False` must be refutable.
    """
    out = {
        "validated": 0,
        "validation_mismatch": [],
        "nontrivial": 0,
        "vacuity_twins": 0,
        "vacuity_twins_violated": 0,
        "functions": set(),
        "sample": None,
        "tags": {},
    }
    state = {"n": 0}
    tracer = loader.FunctionTracer()

    def h_sym(ctx):
        h = SymH(ctx, mods_)
        ctx._h = h
        if state["n"] < trace_first:
            with tracer:
                return harness(h)
        return harness(h)

    def on_path(ctx, obs):
        state["n"] += 1
        h = ctx._h
        if ctx.decisions:
            out["nontrivial"] += 1
        for t in ctx.trace_tags:
            out["tags"][t] = out["tags"].get(t, 0) + 1
        model = None
        if twin and (state["n"] <= 3 or state["n"] % max(validate_every, 1) == 0):
            out["vacuity_twins"] += 1
            model = ctx.any_model()
            if model is not None:
                out["vacuity_twins_violated"] += 1
        if validate_every and not ctx.failures and (state["n"] <= 2 or state["n"] % validate_every == 0):
            # (paths with refuted assertions are handled by witness replay instead)
            model = interior_model(ctx)
            if model is None:
                out["validation_skipped"] = out.get("validation_skipped", 0) + 1
            if model is not None:
                inputs = ctx.model_inputs(model)
                ch = ConH(RealMods(), {k: str(v) for k, v in inputs.items()}, h.choices)
                try:
                    with C.concrete_context():
                        cobs = harness(ch)
                    sobs = eval_obs(ctx, model, obs)
                    cobs = eval_obs(None, None, cobs)
                    if ch.failed:
                        out["validation_mismatch"].append(
                            f"concrete check failed {ch.failed[:2]} inputs={ {k: float(v) for k, v in inputs.items()} }"
                        )
                    elif compare_obs and not same_obs(sobs, cobs):
                        out["validation_mismatch"].append(
                            f"observables differ sym={sobs!r:.300} con={cobs!r:.300} inputs={ {k: float(v) for k, v in inputs.items()} } choices={h.choices}"
                        )
                    else:
                        out["validated"] += 1
                except Abort:
                    pass
                except allowed:
                    pass
                if out["sample"] is None and sample_inputs:
                    out["sample"] = {
                        "decisions": list(ctx.decisions)[:60],
                        "choices": dict(h.choices),
                        "model": {k: float(v) for k, v in inputs.items()},
                        "observables": repr(eval_obs(ctx, model, obs))[:400],
                    }

    st = explore(
        h_sym,
        timeout_ms=timeout_ms,
        max_paths=max_paths,
        opts=opts,
        on_path=on_path,
        deadline=deadline,
    )
    out["functions"] = sorted(tracer.seen)
    res = {
        "paths": st["paths"],
        "queries": st["queries"],
        "solver_s": st["solver_s"],
        "checks": st["checks"],
        "unknown_check": st["unknown_check"],
        "failures": st["failures"],
        "inconclusive": list(st["inconclusive"]),
        "validated": out["validated"],
        "nontrivial": out["nontrivial"],
        "vacuity_twins": out["vacuity_twins"],
        "vacuity_twins_violated": out["vacuity_twins_violated"],
        "functions": out["functions"],
        "sample": out["sample"],
        "extra": {"path_tags": [f"{k}={v}" for k, v in sorted(out["tags"].items())][:40], "unknown_branch": st["unknown_branch"]},
    }
    # a mismatch between encoding and implementation is a harness error
    for mm in out["validation_mismatch"][:5]:
        res["inconclusive"].append("translator validation: " + mm)
    return res


def merge(results):
    """merge several run_symbolic results of one case"""
    agg = None
    for r in results:
        if agg is None:
            agg = dict(r)
            agg["functions"] = list(r["functions"])
            agg["failures"] = list(r["failures"])
            agg["inconclusive"] = list(r["inconclusive"])
            continue
        for k in ("paths", "queries", "solver_s", "checks", "unknown_check", "validated", "nontrivial", "vacuity_twins", "vacuity_twins_violated"):
            agg[k] += r[k]
        agg["functions"] = sorted(set(agg["functions"]) | set(r["functions"]))
        agg["failures"] += r["failures"]
        agg["inconclusive"] += r["inconclusive"]
        if agg.get("sample") is None:
            agg["sample"] = r.get("sample")
    return agg
