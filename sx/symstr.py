"""Symbolic strings for C10 (DESIGN 1.2): fixed-length sequences of z3 Int code
points restricted to a stated alphabet, with Python's *backtracking* regex
semantics (`symre`) implemented over them from the parse tree of the compiled
patterns found in the loaded module.

Every character test is one canonical z3 term (`c == k` / `lo <= c <= hi`), so the
explorer's per-path cache answers repeated tests without a solver call.
"""
import re
import re._parser as sre_parse
import re._constants as sre_c

import z3

from . import ctx as C
from .values import SymStrBase, SymReal


class SymStr(SymStrBase):
    __slots__ = ("cs",)

    def __init__(self, chars):
        self.cs = list(chars)  # z3 Int terms or python ints (concrete code points)

    # --- construction ---------------------------------------------------------
    @staticmethod
    def fresh(name, n, alphabet):
        ctx = C.cur()
        cs = []
        for i in range(n):
            c = z3.Int(f"{name}!{i}")
            ctx._add(z3.Or(*[c == ord(a) for a in alphabet]))
            ctx.inputs[f"{name}!{i}"] = c
            cs.append(c)
        return SymStr(cs)

    def __len__(self):
        return len(self.cs)

    def __bool__(self):
        return len(self.cs) > 0

    def __getitem__(self, k):
        if isinstance(k, slice):
            return SymStr(self.cs[k])
        return SymStr([self.cs[k]])

    def __add__(self, o):
        if isinstance(o, str):
            return SymStr(self.cs + [ord(c) for c in o])
        return SymStr(self.cs + o.cs)

    def __radd__(self, o):
        return SymStr([ord(c) for c in o] + self.cs)

    def __iter__(self):
        return iter(SymStr([c]) for c in self.cs)

    # --- character tests (fork) ---------------------------------------------------
    @staticmethod
    def is_char(c, k):
        if isinstance(c, int):
            return c == k
        return C.cur().branch(c == k)

    @staticmethod
    def in_range(c, lo, hi):
        if isinstance(c, int):
            return lo <= c <= hi
        return C.cur().branch(z3.And(c >= lo, c <= hi))

    @staticmethod
    def one_of(c, codes):
        return any(SymStr.is_char(c, k) for k in codes)

    # --- str API used by the parser ------------------------------------------------------
    def strip(self, chars=None):
        WS = self._strip_set(chars)
        lo, hi = 0, len(self.cs)
        while lo < hi and self.one_of(self.cs[lo], WS):
            lo += 1
        while hi > lo and self.one_of(self.cs[hi - 1], WS):
            hi -= 1
        return SymStr(self.cs[lo:hi])

    # --- further str API (all positional, forking on character tests) --------------
    def _strip_set(self, chars):
        if chars is None:
            return (32, 9, 10, 13, 11, 12)
        if isinstance(chars, SymStr):
            chars = chars.concretize()
        return tuple(ord(c) for c in chars)

    def rstrip(self, chars=None):
        ks = self._strip_set(chars)
        hi = len(self.cs)
        while hi > 0 and self.one_of(self.cs[hi - 1], ks):
            hi -= 1
        return SymStr(self.cs[:hi])

    def lstrip(self, chars=None):
        ks = self._strip_set(chars)
        lo = 0
        while lo < len(self.cs) and self.one_of(self.cs[lo], ks):
            lo += 1
        return SymStr(self.cs[lo:])

    def _at(self, i, sub):
        if i + len(sub) > len(self.cs):
            return False
        return all(self.is_char(self.cs[i + k], ord(ch)) for k, ch in enumerate(sub))

    def find(self, sub, start=0):
        if isinstance(sub, SymStr):
            sub = sub.concretize()
        for i in range(start, len(self.cs) - len(sub) + 1):
            if self._at(i, sub):
                return i
        return -1

    def rfind(self, sub):
        if isinstance(sub, SymStr):
            sub = sub.concretize()
        for i in range(len(self.cs) - len(sub), -1, -1):
            if self._at(i, sub):
                return i
        return -1

    def index(self, sub, start=0):
        i = self.find(sub, start)
        if i < 0:
            raise ValueError("substring not found")
        return i

    def __contains__(self, sub):
        return self.find(sub) >= 0

    def startswith(self, sub):
        subs = sub if isinstance(sub, tuple) else (sub,)
        return any(self._at(0, x) for x in subs)

    def endswith(self, sub):
        subs = sub if isinstance(sub, tuple) else (sub,)
        return any(len(x) <= len(self.cs) and self._at(len(self.cs) - len(x), x) for x in subs)

    def partition(self, sep):
        i = self.find(sep)
        if i < 0:
            return self, SymStr([]), SymStr([])
        return SymStr(self.cs[:i]), SymStr(self.cs[i : i + len(sep)]), SymStr(self.cs[i + len(sep) :])

    def rpartition(self, sep):
        i = self.rfind(sep)
        if i < 0:
            return SymStr([]), SymStr([]), self
        return SymStr(self.cs[:i]), SymStr(self.cs[i : i + len(sep)]), SymStr(self.cs[i + len(sep) :])

    def split(self, sep=None, maxsplit=-1):
        if sep is None:
            raise C.Inconclusive("SymStr.split() on whitespace")
        out, last, n = [], 0, 0
        while maxsplit < 0 or n < maxsplit:
            i = self.find(sep, last)
            if i < 0:
                break
            out.append(SymStr(self.cs[last:i]))
            last = i + len(sep)
            n += 1
        out.append(SymStr(self.cs[last:]))
        return out

    def replace(self, old, new, count=-1):
        parts = self.split(old, count)
        out = parts[0]
        for p_ in parts[1:]:
            out = out + new + p_
        return out

    def concretize(self, candidates=None):
        """decide every character (forks): -> python str"""
        out = []
        for c in self.cs:
            if isinstance(c, int):
                out.append(chr(c))
                continue
            ctx = C.cur()
            alpha = candidates or ctx.opts.get("alphabet")
            for a in alpha:
                if ctx.branch(c == ord(a)):
                    out.append(a)
                    break
            else:
                raise C.Infeasible()
        return "".join(out)

    def upper(self):
        return self.concretize().upper()

    def lower(self):
        return self.concretize().lower()

    def __eq__(self, o):
        if isinstance(o, str):
            if len(o) != len(self.cs):
                return False
            return all(self.is_char(c, ord(k)) for c, k in zip(self.cs, o))
        if isinstance(o, SymStr):
            if len(o.cs) != len(self.cs):
                return False
            for a, b in zip(self.cs, o.cs):
                if isinstance(a, int) and isinstance(b, int):
                    if a != b:
                        return False
                elif isinstance(a, int) or isinstance(b, int):
                    c, k = (b, a) if isinstance(a, int) else (a, b)
                    if not self.is_char(c, k):
                        return False
                elif not z3.eq(a, b):
                    if not C.cur().branch(a == b):
                        return False
            return True
        return NotImplemented

    def __ne__(self, o):
        r = self.__eq__(o)
        return r if r is NotImplemented else not r

    def __hash__(self):
        # opt sym_hash: symbolic strings hash alike and dict lookups fall through to __eq__
        # (character-wise solver-decided equality); a symbolic key then never meets a LITERAL
        # str key (different hash) - harnesses that set the option do not mix the two
        if all(isinstance(c, int) for c in self.cs):
            return hash("".join(chr(c) for c in self.cs))  # consistent with str keys
        if C.cur().opts.get("sym_hash"):
            return 0x5A
        return hash(self.concretize())

    def __repr__(self):
        return "SymStr(%d)" % len(self.cs)

    def __str__(self):
        return self.concretize()

    # --- numbers ---------------------------------------------------------------------------
    def _digit(self, c):
        return self.in_range(c, 48, 57)

    def to_float(self):
        """Python float(str) on the strings the tokenizer can hand over: optional sign,
        digits with optional fraction (or .digits), optional exponent; ValueError otherwise.
        (CPython also accepts surrounding whitespace, '_', inf/nan: not in the alphabet.)"""
        cs = self.cs
        i, n = 0, len(cs)
        sign = 1
        if i < n and self.is_char(cs[i], 45):
            sign, i = -1, i + 1
        elif i < n and self.is_char(cs[i], 43):
            i += 1
        mant = z3.RealVal(0)
        nd = 0
        while i < n and self._digit(cs[i]):
            mant = mant * 10 + z3.ToReal(cs[i] - 48) if not isinstance(cs[i], int) else mant * 10 + (cs[i] - 48)
            i += 1
            nd += 1
        if i < n and self.is_char(cs[i], 46):
            i += 1
            scale = 1
            while i < n and self._digit(cs[i]):
                scale *= 10
                d = z3.ToReal(cs[i] - 48) if not isinstance(cs[i], int) else z3.RealVal(cs[i] - 48)
                mant = mant + d / scale
                i += 1
                nd += 1
        if nd == 0:
            raise ValueError("could not convert string to float")
        if i < n and (self.is_char(cs[i], 101) or self.is_char(cs[i], 69)):
            i += 1
            esign = 1
            if i < n and self.is_char(cs[i], 45):
                esign, i = -1, i + 1
            elif i < n and self.is_char(cs[i], 43):
                i += 1
            e = 0
            ne = 0
            uf = C.cur().opts.get("pow10_uf")
            while i < n and self._digit(cs[i]):
                if isinstance(cs[i], int):
                    dv = cs[i] - 48
                elif uf:
                    dv = cs[i] - 48  # symbolic exponent digit: 10**e stays an uninterpreted power
                else:
                    dv = int(SymStr([cs[i]]).concretize("0123456789"))
                e = e * 10 + dv
                i += 1
                ne += 1
            if ne == 0:
                raise ValueError("could not convert string to float")
            if isinstance(e, int) and e > 400:
                # beyond the float range (inf / 0.0 in CPython): outside the real-number model
                raise C.Infeasible()
            if isinstance(e, int):
                mant = mant * z3.RealVal(10**e) if esign > 0 else mant / z3.RealVal(10**e)
            else:
                mant = mant * pow10(e * esign)
        if i != n:
            raise ValueError("could not convert string to float")
        return SymReal(z3.simplify(mant * sign))

    def to_int(self):
        s = self.concretize("0123456789+-")
        return int(s)


_POW10 = z3.Function("sx_pow10", z3.IntSort(), z3.RealSort())


def pow10(e):
    """10**e for a symbolic Int exponent: uninterpreted, positive (enough to decide that two
    printed numbers are equal iff mantissa and exponent agree; the value itself is never needed)"""
    t = _POW10(e)
    C.cur()._add(t > 0)
    return t


# ------------------------------------------------------------------------- symre
class SymMatch:
    def __init__(self, s, start, end, groups=None, ngroups=0):
        self.s, self._span = s, (start, end)
        self.groups_ = dict(groups or {})
        self.ngroups = ngroups

    def _sp(self, n):
        if n == 0:
            return self._span
        return self.groups_.get(n, (-1, -1))

    def span(self, n=0):
        return self._sp(n)

    def start(self, n=0):
        return self._sp(n)[0]

    def end(self, n=0):
        return self._sp(n)[1]

    def group(self, *ns):
        if not ns:
            ns = (0,)
        out = []
        for n in ns:
            a, b = self._sp(n)
            out.append(None if a < 0 else self.s[a:b])
        return out[0] if len(out) == 1 else tuple(out)

    def groups(self, default=None):
        return tuple(self.group(n) if self._sp(n)[0] >= 0 else default for n in range(1, self.ngroups + 1))

    def __getitem__(self, n):
        return self.group(n)


class SymPattern:
    """Python backtracking semantics (priority order of alternatives, greedy repeats)
    over SymStr, compiled from the `.pattern` of the real compiled regex."""

    def __init__(self, real):
        self.real = real
        self.pattern = real.pattern
        self.flags = real.flags
        self.tree = sre_parse.parse(real.pattern, real.flags)
        self.flags = self.tree.state.flags | real.flags  # inline (?i) etc.
        self.groups = self.tree.state.groups - 1

    # generator of end positions in priority order
    def _m(self, nodes, k, s, pos, groups):
        if k == len(nodes):
            yield pos
            return
        op, av = nodes[k]
        cs = s.cs
        if op is sre_c.LITERAL:
            if pos < len(cs) and SymStr.one_of(cs[pos], self._fold(av)):
                yield from self._m(nodes, k + 1, s, pos + 1, groups)
        elif op is sre_c.NOT_LITERAL:
            if pos < len(cs) and not SymStr.one_of(cs[pos], self._fold(av)):
                yield from self._m(nodes, k + 1, s, pos + 1, groups)
        elif op is sre_c.IN:
            if pos < len(cs) and self._in(av, cs[pos]):
                yield from self._m(nodes, k + 1, s, pos + 1, groups)
        elif op is sre_c.ANY:
            if pos < len(cs) and not SymStr.is_char(cs[pos], 10):
                yield from self._m(nodes, k + 1, s, pos + 1, groups)
        elif op is sre_c.AT:
            if av in (sre_c.AT_BEGINNING, sre_c.AT_BEGINNING_STRING):
                if pos == 0:
                    yield from self._m(nodes, k + 1, s, pos, groups)
            elif av in (sre_c.AT_END, sre_c.AT_END_STRING):
                if pos == len(cs):
                    yield from self._m(nodes, k + 1, s, pos, groups)
            else:
                raise C.Inconclusive(f"regex AT {av}")
        elif op is sre_c.SUBPATTERN:
            gid, _add, _del, sub = av
            for e in self._m(list(sub), 0, s, pos, groups):
                if gid is not None:
                    old = groups.get(gid)
                    groups[gid] = (pos, e)
                yield from self._m(nodes, k + 1, s, e, groups)
                if gid is not None:
                    if old is None:
                        groups.pop(gid, None)
                    else:
                        groups[gid] = old
        elif op is sre_c.BRANCH:
            for alt in av[1]:
                for e in self._m(list(alt), 0, s, pos, groups):
                    yield from self._m(nodes, k + 1, s, e, groups)
        elif op in (sre_c.MAX_REPEAT, sre_c.MIN_REPEAT):
            lo, hi, sub = av
            greedy = op is sre_c.MAX_REPEAT
            sub = list(sub)

            def rep(count, p):
                # greedy: try one more iteration first
                if greedy:
                    if count < hi:
                        for e in self._m(sub, 0, s, p, groups):
                            if e == p:
                                continue  # empty iteration: stop (CPython guards against it)
                            yield from rep(count + 1, e)
                    if count >= lo:
                        yield p
                else:
                    if count >= lo:
                        yield p
                    if count < hi:
                        for e in self._m(sub, 0, s, p, groups):
                            if e == p:
                                continue
                            yield from rep(count + 1, e)

            for e in rep(0, pos):
                yield from self._m(nodes, k + 1, s, e, groups)
        else:
            raise C.Inconclusive(f"unsupported regex node {op}")

    def _fold(self, code):
        """the code points a literal matches (both cases under IGNORECASE)"""
        if self.flags & re.IGNORECASE:
            ch = chr(code)
            return tuple(sorted({code, ord(ch.lower()[0]), ord(ch.upper()[0])}))
        return (code,)

    def _in(self, items, c):
        neg = False
        ok = False
        for op, av in items:
            if op is sre_c.NEGATE:
                neg = True
            elif op is sre_c.LITERAL:
                ok = ok or SymStr.one_of(c, self._fold(av))
            elif op is sre_c.RANGE:
                ok = ok or SymStr.in_range(c, av[0], av[1])
                if not ok and self.flags & re.IGNORECASE and av[1] - av[0] < 128:
                    extra = {x for k in range(av[0], av[1] + 1) for x in self._fold(k)} - set(range(av[0], av[1] + 1))
                    ok = bool(extra) and SymStr.one_of(c, tuple(sorted(extra)))
            elif op is sre_c.CATEGORY:
                if av is sre_c.CATEGORY_DIGIT:
                    ok = ok or SymStr.in_range(c, 48, 57)
                elif av is sre_c.CATEGORY_SPACE:
                    ok = ok or SymStr.one_of(c, (32, 9, 10, 13, 11, 12))
                else:
                    raise C.Inconclusive(f"regex category {av}")
            else:
                raise C.Inconclusive(f"regex class item {op}")
            if ok and not neg:
                return True
        return ok != neg

    def match(self, s, pos=0):
        if isinstance(s, str):
            return self.real.match(s, pos)
        groups = {}
        for e in self._m(list(self.tree), 0, s, pos, groups):
            return SymMatch(s, pos, e, groups, self.groups)
        return None

    def fullmatch(self, s, pos=0):
        if isinstance(s, str):
            return self.real.fullmatch(s, pos)
        groups = {}
        for e in self._m(list(self.tree), 0, s, pos, groups):
            if e == len(s.cs):
                return SymMatch(s, pos, e, groups, self.groups)
        return None

    def search(self, s, pos=0):
        if isinstance(s, str):
            return self.real.search(s, pos)
        r = self._search_from(s, pos)
        if r is None:
            return None
        p, e, groups = r
        return SymMatch(s, p, e, groups, self.groups)

    def finditer(self, s, pos=0):
        if isinstance(s, str):
            yield from self.real.finditer(s, pos)
            return
        n = len(s.cs)
        while pos <= n:
            r = self._search_from(s, pos)
            if r is None:
                return
            p, e, groups = r
            yield SymMatch(s, p, e, groups, self.groups)
            pos = e if e > p else p + 1

    def findall(self, s, pos=0):
        if isinstance(s, str):
            return self.real.findall(s, pos)
        out = []
        for m in self.finditer(s, pos):
            if self.groups == 0:
                out.append(m.group(0))
            elif self.groups == 1:
                out.append(m.group(1) if m.start(1) >= 0 else SymStr([]))
            else:
                out.append(tuple(g if g is not None else SymStr([]) for g in m.groups()))
        return out

    def sub(self, repl, s, count=0):
        if isinstance(s, str):
            return self.real.sub(repl, s, count)
        raise C.Inconclusive("re.sub on a symbolic string")

    def _search_from(self, s, start):
        for p in range(start, len(s.cs) + 1):
            groups = {}
            for e in self._m(list(self.tree), 0, s, p, groups):
                return p, e, dict(groups)
        return None

    def split(self, s):
        if isinstance(s, str):
            return self.real.split(s)
        out = []
        last = 0
        pos = 0
        n = len(s.cs)
        while pos <= n:
            r = self._search_from(s, pos)
            if r is None:
                break
            p, e, groups = r
            if e == p:
                # empty match: Python 3.7+ splits on it too; none of the patterns here can match empty
                pos = p + 1
                continue
            out.append(s[last:p])
            for g in range(1, self.groups + 1):
                if g in groups:
                    out.append(s[groups[g][0] : groups[g][1]])
                else:
                    out.append(None)
            last = e
            pos = e
        out.append(s[last:])
        return out


# ------------------------------------------------------------------- `re` stand-in
class SymRe:
    """Module-like stand-in for `re` inside loaded modules (loader extra_imports={'re': SymRe()}):
    concrete subjects go to the real `re`; symbolic strings run on SymPattern."""

    def __init__(self):
        self._cache = {}
        for name in dir(re):
            if name.isupper() or name in ("error", "escape", "Pattern", "Match", "RegexFlag", "purge"):
                setattr(self, name, getattr(re, name))

    def compile(self, pattern, flags=0):
        if isinstance(pattern, SymPattern):
            return pattern
        key = (pattern, int(flags))
        c = self._cache.get(key)
        if c is None:
            c = self._cache[key] = SymPattern(re.compile(pattern, flags))
        return c

    def match(self, pattern, string, flags=0):
        return self.compile(pattern, flags).match(string)

    def fullmatch(self, pattern, string, flags=0):
        return self.compile(pattern, flags).fullmatch(string)

    def search(self, pattern, string, flags=0):
        return self.compile(pattern, flags).search(string)

    def finditer(self, pattern, string, flags=0):
        return self.compile(pattern, flags).finditer(string)

    def findall(self, pattern, string, flags=0):
        return self.compile(pattern, flags).findall(string)

    def split(self, pattern, string, maxsplit=0, flags=0):
        if maxsplit:
            raise C.Inconclusive("re.split with maxsplit on a symbolic string")
        return self.compile(pattern, flags).split(string)

    def sub(self, pattern, repl, string, count=0, flags=0):
        return self.compile(pattern, flags).sub(repl, string, count)
