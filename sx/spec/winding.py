"""Independent point-in-path evaluator on flattened curves.

Only ever used to *confirm* a solver witness concretely (replay) — never to
decide a property.  Input: absolute path commands M/L/H/V/C/S/Q/T/A/Z as
produced by sx.spec.path_interp.interp (segments), floats.
"""
import math


def _flatten_seg(seg, n=48):
    k = seg[0]
    if k in ("L", "Z"):
        return [seg[1], seg[2]]
    if k == "Q":
        p0, c, p1 = seg[1], seg[2], seg[3]
        pts = []
        for i in range(n + 1):
            t = i / n
            a = (1 - t) ** 2
            b = 2 * (1 - t) * t
            cc = t * t
            pts.append((a * p0[0] + b * c[0] + cc * p1[0], a * p0[1] + b * c[1] + cc * p1[1]))
        return pts
    if k == "C":
        p0, c1, c2, p1 = seg[1], seg[2], seg[3], seg[4]
        pts = []
        for i in range(n + 1):
            t = i / n
            a = (1 - t) ** 3
            b = 3 * (1 - t) ** 2 * t
            c = 3 * (1 - t) * t * t
            d = t**3
            pts.append(
                (a * p0[0] + b * c1[0] + c * c2[0] + d * p1[0], a * p0[1] + b * c1[1] + c * c2[1] + d * p1[1])
            )
        return pts
    if k == "A":
        return _flatten_arc(seg[1], seg[2], seg[3], n)
    raise ValueError(k)


def _flatten_arc(p0, params, p1, n):
    """SVG implementation notes F.6.5/F.6.6 (independent of picosvg.arc_to_cubic)"""
    rx, ry, rot, large, sweep = params
    rx, ry = abs(rx), abs(ry)
    if p0 == p1:
        return [p0]
    if rx == 0 or ry == 0:
        return [p0, p1]
    phi = math.radians(rot)
    cp, sp = math.cos(phi), math.sin(phi)
    dx, dy = (p0[0] - p1[0]) / 2, (p0[1] - p1[1]) / 2
    x1 = cp * dx + sp * dy
    y1 = -sp * dx + cp * dy
    lam = x1 * x1 / (rx * rx) + y1 * y1 / (ry * ry)
    if lam > 1:
        s = math.sqrt(lam)
        rx, ry = rx * s, ry * s
    num = rx * rx * ry * ry - rx * rx * y1 * y1 - ry * ry * x1 * x1
    den = rx * rx * y1 * y1 + ry * ry * x1 * x1
    co = math.sqrt(max(0.0, num / den)) if den else 0.0
    if bool(large) == bool(sweep):
        co = -co
    cxp, cyp = co * rx * y1 / ry, -co * ry * x1 / rx
    cx = cp * cxp - sp * cyp + (p0[0] + p1[0]) / 2
    cy = sp * cxp + cp * cyp + (p0[1] + p1[1]) / 2

    def ang(ux, uy, vx, vy):
        d = math.hypot(ux, uy) * math.hypot(vx, vy)
        if d == 0:
            return 0.0
        c = max(-1.0, min(1.0, (ux * vx + uy * vy) / d))
        a = math.acos(c)
        return -a if ux * vy - uy * vx < 0 else a

    th1 = ang(1, 0, (x1 - cxp) / rx, (y1 - cyp) / ry)
    dth = ang((x1 - cxp) / rx, (y1 - cyp) / ry, (-x1 - cxp) / rx, (-y1 - cyp) / ry)
    if not sweep and dth > 0:
        dth -= 2 * math.pi
    elif sweep and dth < 0:
        dth += 2 * math.pi
    pts = []
    for i in range(n + 1):
        t = th1 + dth * i / n
        ex, ey = rx * math.cos(t), ry * math.sin(t)
        pts.append((cp * ex - sp * ey + cx, sp * ex + cp * ey + cy))
    pts[0], pts[-1] = p0, p1
    return pts


def contours(segs, n=48):
    """list of closed polygons (implicitly closed for filling, as SVG fills)"""
    out = []
    cur = None
    for s in segs:
        if s[0] == "M":
            if cur and len(cur) > 1:
                out.append(cur)
            cur = [s[1]]
            continue
        if cur is None:
            cur = [s[1]]
        pts = _flatten_seg(s, n)
        cur.extend(pts[1:])
        if s[0] == "Z":
            out.append(cur)
            cur = [s[2]]
    if cur and len(cur) > 1:
        out.append(cur)
    return out


def winding(polys, q):
    w = 0
    x, y = q
    for poly in polys:
        m = len(poly)
        for i in range(m):
            x0, y0 = poly[i]
            x1, y1 = poly[(i + 1) % m]
            if y0 <= y:
                if y1 > y and (x1 - x0) * (y - y0) - (x - x0) * (y1 - y0) > 0:
                    w += 1
            elif y1 <= y and (x1 - x0) * (y - y0) - (x - x0) * (y1 - y0) < 0:
                w -= 1
    return w


def inside(polys, q, rule="nonzero"):
    w = winding(polys, q)
    return (w % 2 != 0) if rule == "evenodd" else (w != 0)


def edge_distance(polys, q):
    best = float("inf")
    x, y = q
    for poly in polys:
        m = len(poly)
        for i in range(m):
            x0, y0 = poly[i]
            x1, y1 = poly[(i + 1) % m]
            dx, dy = x1 - x0, y1 - y0
            L = dx * dx + dy * dy
            t = 0.0 if L == 0 else max(0.0, min(1.0, ((x - x0) * dx + (y - y0) * dy) / L))
            px, py = x0 + t * dx, y0 + t * dy
            best = min(best, math.hypot(x - px, y - py))
    return best


def bbox(polys):
    xs = [p[0] for poly in polys for p in poly]
    ys = [p[1] for poly in polys for p in poly]
    if not xs:
        return None
    return min(xs), min(ys), max(xs), max(ys)


def grid(b, n=37, pad=0.13):
    x0, y0, x1, y1 = b
    w, h = (x1 - x0) or 1.0, (y1 - y0) or 1.0
    x0, x1 = x0 - pad * w, x1 + pad * w
    y0, y1 = y0 - pad * h, y1 + pad * h
    for i in range(n):
        for j in range(n):
            yield (x0 + (x1 - x0) * (i + 0.37) / n, y0 + (y1 - y0) * (j + 0.41) / n)
