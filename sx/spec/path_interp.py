"""Independent SVG path-data interpreter (SVG 1.1 section 8.3, SVG 2 section 9.3).

Written from the specification text; never calls picosvg.  Generic over the
number type (floats or sx SymReal): uses only + - * and comparisons of letters.

interp(cmds) -> list of absolute segments
   ("M", p)                         start a new subpath at p
   ("L", p0, p1)
   ("C", p0, c1, c2, p1)
   ("Q", p0, c, p1)
   ("A", p0, (rx, ry, rot, large, sweep), p1)
   ("Z", p0, start)                 closing line back to the subpath start
"""

ARITY = {"m": 2, "z": 0, "l": 2, "h": 1, "v": 1, "c": 6, "s": 4, "q": 4, "t": 2, "a": 7}


def interp(cmds):
    cur = (0, 0)
    start = (0, 0)
    last_ctrl = None  # (family, point): second control point of previous C/S or control of Q/T
    segs = []
    first = True
    for cmd, args in cmds:
        lo = cmd.lower()
        rel = cmd.islower()
        n = ARITY[lo]
        if len(args) != n:
            raise ValueError(f"{cmd}: expected {n} args, got {len(args)}")
        ox, oy = (cur if rel else (0, 0))

        def P(i):
            return (args[i] + ox, args[i + 1] + oy)

        new_ctrl = None
        if lo == "m":
            # "If a relative moveto (m) appears as the first element of the path,
            # then it is treated as a pair of absolute coordinates" (cur = origin)
            p = P(0)
            segs.append(("M", p))
            cur = start = p
        elif lo == "z":
            segs.append(("Z", cur, start))
            cur = start
        elif lo == "l":
            p = P(0)
            segs.append(("L", cur, p))
            cur = p
        elif lo == "h":
            p = (args[0] + ox, cur[1])
            segs.append(("L", cur, p))
            cur = p
        elif lo == "v":
            p = (cur[0], args[0] + oy)
            segs.append(("L", cur, p))
            cur = p
        elif lo == "c":
            c1, c2, p = P(0), P(2), P(4)
            segs.append(("C", cur, c1, c2, p))
            new_ctrl = ("C", c2)
            cur = p
        elif lo == "s":
            # first control point: reflection of the second control point of the
            # previous command if that was C, c, S or s; else the current point
            if last_ctrl is not None and last_ctrl[0] == "C":
                c1 = (2 * cur[0] - last_ctrl[1][0], 2 * cur[1] - last_ctrl[1][1])
            else:
                c1 = cur
            c2, p = P(0), P(2)
            segs.append(("C", cur, c1, c2, p))
            new_ctrl = ("C", c2)
            cur = p
        elif lo == "q":
            c, p = P(0), P(2)
            segs.append(("Q", cur, c, p))
            new_ctrl = ("Q", c)
            cur = p
        elif lo == "t":
            if last_ctrl is not None and last_ctrl[0] == "Q":
                c = (2 * cur[0] - last_ctrl[1][0], 2 * cur[1] - last_ctrl[1][1])
            else:
                c = cur
            p = P(0)
            segs.append(("Q", cur, c, p))
            new_ctrl = ("Q", c)
            cur = p
        elif lo == "a":
            p = (args[5] + ox, args[6] + oy)
            segs.append(("A", cur, (args[0], args[1], args[2], args[3], args[4]), p))
            cur = p
        else:
            raise ValueError(cmd)
        last_ctrl = new_ctrl
        first = False
    return segs


def seg_points(seg):
    """all points of a segment in order (for comparisons)"""
    k = seg[0]
    if k == "M":
        return [seg[1]]
    if k in ("L", "Z"):
        return [seg[1], seg[2]]
    if k == "C":
        return [seg[1], seg[2], seg[3], seg[4]]
    if k == "Q":
        return [seg[1], seg[2], seg[3]]
    if k == "A":
        return [seg[1], seg[3]]
    raise ValueError(k)


def subpath_partition(segs):
    """list of (start index, closed?) per subpath as the spec defines them:
    a subpath starts at each M, and at the first drawing command after a Z"""
    parts = []
    open_ = False
    for i, s in enumerate(segs):
        if s[0] == "M":
            parts.append([i, False])
            open_ = True
        else:
            if not open_:
                parts.append([i, False])
                open_ = True
            if s[0] == "Z":
                parts[-1][1] = True
                open_ = False
    return [tuple(p) for p in parts]
