"""Independent SVG rendering model (DESIGN 1.6 `render_spec`).

Turns a document (source per SVG 1.1/2, or output per the picosvg grammar) into
a paint tree

    Group(opacity, [children])  |  Paint(region term, paint string, alpha)

without calling picosvg.  Regions are abstract-Skia terms (sx.fake_pathops.Term)
built from the *specification's* reading of the document: shape geometry in its
own user space, mapped by the CTM, stroked before the outer transform, clipped
by the union of the clipPath children placed in the referencing element's
coordinate system.  `composite` evaluates source-over compositing with group
opacity at a symbolic sample point whose coverage by each leaf is a Boolean
atom (all overlap patterns at once).

Generic over numbers: sx SymReal (placeholders) or floats.
"""
import math
import re

from lxml import etree

from .. import fake_pathops as FP
from . import path_interp as PI

SVGNS = "http://www.w3.org/2000/svg"
XLINK = "http://www.w3.org/1999/xlink"

INHERITED = {
    "fill": "black",
    "fill-rule": "nonzero",
    "fill-opacity": 1,
    "stroke": "none",
    "stroke-width": 1,
    "stroke-linecap": "butt",
    "stroke-linejoin": "miter",
    "stroke-miterlimit": 4,
    "stroke-dasharray": "none",
    "stroke-dashoffset": 0,
    "stroke-opacity": 1,
    "clip-rule": "nonzero",
}
NUMERIC = {"fill-opacity", "stroke-width", "stroke-miterlimit", "stroke-dashoffset", "stroke-opacity", "opacity"}


class Unsupported(Exception):
    pass


class Paint:
    def __init__(self, region, paint, alpha, tag=""):
        self.region, self.paint, self.alpha, self.tag = region, paint, alpha, tag

    def __repr__(self):
        return f"Paint({FP.pretty(self.region)},{self.paint},a={self.alpha})"


class Group:
    def __init__(self, opacity, children):
        self.opacity, self.children = opacity, children

    def __repr__(self):
        return f"Group({self.opacity},{self.children})"


def local(tag):
    return tag.split("}")[-1] if isinstance(tag, str) else None


class Spec:
    """numbers: `num(str)->number`, trig from `trig` (sin,cos,tan,radians)"""

    def __init__(self, num, trig, mn=min, mx=max, is_zero=None, truth=bool, absf=abs):
        self.truth = truth  # decides a (possibly symbolic) condition
        self.absf = absf
        self.num = num
        self.sin, self.cos, self.tan, self.radians = trig
        self.mn, self.mx = mn, mx
        self.is_zero = is_zero or (lambda v: v == 0)

    # ---- affine maps as 6-tuples (a b c d e f), column vectors ------------------
    @staticmethod
    def mul(m1, m2):
        """m1 after m2 :  p -> m1(m2(p))"""
        a1, b1, c1, d1, e1, f1 = m1
        a2, b2, c2, d2, e2, f2 = m2
        return (
            a1 * a2 + c1 * b2,
            b1 * a2 + d1 * b2,
            a1 * c2 + c1 * d2,
            b1 * c2 + d1 * d2,
            a1 * e2 + c1 * f2 + e1,
            b1 * e2 + d1 * f2 + f1,
        )

    @staticmethod
    def apply(m, p):
        a, b, c, d, e, f = m
        return (a * p[0] + c * p[1] + e, b * p[0] + d * p[1] + f)

    I = (1, 0, 0, 1, 0, 0)

    def parse_transform(self, s):
        """SVG 1.1 7.6: the list is a product in the listed order"""
        m = self.I
        for name, args in re.findall(r"([A-Za-z]+)\s*\(([^)]*)\)", s or ""):
            a = [self.num(x) for x in re.split(r"[\s,]+", args.strip()) if x]
            n = name.lower()
            if n == "matrix":
                t = tuple(a)
            elif n == "translate":
                t = (1, 0, 0, 1, a[0], a[1] if len(a) > 1 else 0)
            elif n == "scale":
                t = (a[0], 0, 0, a[1] if len(a) > 1 else a[0], 0, 0)
            elif n == "rotate":
                r = self.radians(a[0])
                c, s_ = self.cos(r), self.sin(r)
                t = (c, s_, -s_, c, 0, 0)
                if len(a) == 3:
                    t = self.mul(self.mul((1, 0, 0, 1, a[1], a[2]), t), (1, 0, 0, 1, -a[1], -a[2]))
            elif n == "skewx":
                t = (1, 0, self.tan(self.radians(a[0])), 1, 0, 0)
            elif n == "skewy":
                t = (1, self.tan(self.radians(a[0])), 0, 1, 0, 0)
            else:
                raise Unsupported(name)
            m = self.mul(m, t)
        return m

    # ---- properties -------------------------------------------------------------
    def specified(self, el):
        """presentation attributes, overridden by style declarations"""
        props = {}
        for k, v in el.attrib.items():
            if k in INHERITED or k in ("opacity", "display", "clip-path", "overflow"):
                props[k] = v.strip()
        for decl in (el.get("style") or "").split(";"):
            if ":" in decl:
                k, v = decl.split(":", 1)
                props[k.strip()] = v.strip()
        return props

    def cascade(self, inherited, el):
        sp = self.specified(el)
        out = dict(inherited)
        for k in INHERITED:
            if k in sp:
                out[k] = self.num(sp[k]) if k in NUMERIC else sp[k]
        return out, sp

    # ---- geometry -----------------------------------------------------------------
    def shape_cmds(self, el):
        t = local(el.tag)
        g = lambda n, d=0: self.num(el.get(n)) if el.get(n) not in (None, "") else d
        if t == "rect":
            x, y, w, h = g("x"), g("y"), g("width"), g("height")
            if el.get("rx") or el.get("ry"):
                raise Unsupported("rounded rect (arcs: C09/C12)")
            return [("M", (x, y)), ("L", (x + w, y)), ("L", (x + w, y + h)), ("L", (x, y + h)), ("L", (x, y)), ("Z", ())]
        if t == "line":
            return [("M", (g("x1"), g("y1"))), ("L", (g("x2"), g("y2")))]
        if t in ("polygon", "polyline"):
            nums = [self.num(x) for x in re.split(r"[\s,]+", (el.get("points") or "").strip()) if x]
            pts = list(zip(nums[0::2], nums[1::2]))
            cmds = [("M", pts[0])] + [("L", p) for p in pts[1:]]
            if t == "polygon":
                cmds.append(("Z", ()))
            return cmds
        if t == "path":
            cmds = []
            for c, args in re.findall(r"([MmLlHhVvCcSsQqTtZz])([^MmLlHhVvCcSsQqTtZzAa]*)", el.get("d") or ""):
                a = [self.num(x) for x in re.split(r"[\s,]+", args.strip()) if x]
                n = PI.ARITY[c.lower()]
                if n == 0:
                    cmds.append((c, ()))
                    continue
                for i in range(0, len(a), n):
                    cc = c
                    if i > 0 and c in "Mm":
                        cc = "L" if c == "M" else "l"
                    cmds.append((cc, tuple(a[i : i + n])))
            out = []
            for s in PI.interp(cmds):
                k = s[0]
                if k == "M":
                    out.append(("M", s[1]))
                elif k == "L":
                    out.append(("L", s[2]))
                elif k == "Q":
                    out.append(("Q", s[2] + s[3]))
                elif k == "C":
                    out.append(("C", s[2] + s[3] + s[4]))
                elif k == "Z":
                    out.append(("Z", ()))
                else:
                    raise Unsupported("arc in path (C09/C12)")
            return out
        raise Unsupported(t)

    def leaf(self, cmds, ctm, fill_rule):
        verbs, coords = [], []
        for c, a in cmds:
            verbs.append(c)
            for i in range(0, len(a), 2):
                p = self.apply(ctm, (a[i], a[i + 1]))
                coords += [p[0], p[1]]
        return FP.leaf_term(verbs, FP.FillType.EVEN_ODD if fill_rule == "evenodd" else FP.FillType.WINDING, coords)

    @staticmethod
    def op(kind, a, b):
        return FP.Term("op", (kind, a, b), ("op", int(kind), a.key, b.key))

    def stroke_term(self, cmds, props, ctm, tolerance):
        base = self.leaf(cmds, self.I, "nonzero")
        dashes = ()
        da = props["stroke-dasharray"]
        if da != "none":
            dashes = tuple(self.num(x) for x in re.split(r"[\s,]+", str(da).strip()) if x)
            if len(dashes) % 2:
                dashes = dashes + dashes
        cap = {"butt": FP.LineCap.BUTT_CAP, "round": FP.LineCap.ROUND_CAP, "square": FP.LineCap.SQUARE_CAP}[props["stroke-linecap"]]
        join = {"miter": FP.LineJoin.MITER_JOIN, "round": FP.LineJoin.ROUND_JOIN, "bevel": FP.LineJoin.BEVEL_JOIN}[props["stroke-linejoin"]]
        params = (props["stroke-width"], cap, join, props["stroke-miterlimit"], dashes, props["stroke-dashoffset"])
        t = FP.Term("stroke", (base, params), ("stroke-spec", base.key, id(params)))
        t = FP.Term("c2q", (t, tolerance), ("c2q-spec", t.key))
        t = FP.Term("simplify", (t,), ("simplify", t.key))
        if not all(isinstance(v, (int, float)) and v == w for v, w in zip(ctm, self.I)):
            t = FP.Term("xf", (t, ctm), ("xf-spec", t.key, id(ctm)))
        return t

    # ---- document walk --------------------------------------------------------------
    def render(self, root, tolerance=None):
        self.root = root
        self.by_id = {e.get("id"): e for e in root.iter() if isinstance(e.tag, str) and e.get("id")}
        vb = root.get("viewBox")
        self.viewport = None
        if vb:
            self.viewport = [self.num(x) for x in re.split(r"[\s,]+", vb.strip())]
        elif root.get("width") and root.get("height"):
            self.viewport = [0, 0, self.num(root.get("width")), self.num(root.get("height"))]
        self.tolerance = tolerance
        props, sp = self.cascade(INHERITED, root)
        kids = self.children(root, self.I, props, [], self.viewport)
        op = self.num(sp["opacity"]) if "opacity" in sp else 1
        return Group(op, kids)

    def children(self, el, ctm, props, clips, viewport):
        out = []
        for ch in el:
            if not isinstance(ch.tag, str):
                continue
            out += self.element(ch, ctm, props, clips, viewport)
        return out

    def clip_region(self, url, ctm, props):
        m = re.match(r"url\(#([^)]+)\)", url.strip())
        if not m or m.group(1) not in self.by_id:
            raise Unsupported("unresolved clip-path")
        cp = self.by_id[m.group(1)]
        ctm = self.mul(ctm, self.parse_transform(cp.get("transform")))
        region = None
        for ch in cp:
            if not isinstance(ch.tag, str):
                continue
            targets = [(ch, ctm)]
            if local(ch.tag) == "use":
                ref = self.by_id[(ch.get("{%s}href" % XLINK) or ch.get("href"))[1:]]
                x = self.num(ch.get("x")) if ch.get("x") else 0
                y = self.num(ch.get("y")) if ch.get("y") else 0
                m2 = self.mul(self.mul(ctm, self.parse_transform(ch.get("transform"))), (1, 0, 0, 1, x, y))
                targets = [(ref, m2)]
            for tgt, m2 in targets:
                cprops, csp = self.cascade(INHERITED, tgt)
                if local(ch.tag) == "use":
                    cprops, _ = self.cascade(self.cascade(INHERITED, ch)[0], tgt)
                if csp.get("display") == "none":
                    continue
                m3 = self.mul(m2, self.parse_transform(tgt.get("transform")))
                det = m3[0] * m3[3] - m3[1] * m3[2]
                if self.truth(self.absf(det) <= 2.220446049250313e-16):
                    continue  # (numerically) singular: the child collapses, clips nothing in
                lf = self.leaf(self.shape_cmds(tgt), m3, cprops["clip-rule"])
                region = lf if region is None else self.op(FP.PathOp.UNION, region, lf)
        if region is None:
            region = FP.Term("empty", (), ("empty",))
        csp = self.specified(cp)
        if csp.get("clip-path") and csp["clip-path"] != "none":
            region = self.op(FP.PathOp.INTERSECTION, region, self.clip_region(csp["clip-path"], ctm, props))
        return region

    def element(self, el, ctm, props, clips, viewport, via_use=False):
        t = local(el.tag)
        if t in ("defs", "clipPath", "linearGradient", "radialGradient", "title", "desc", "metadata", "symbol", "style"):
            return []
        props, sp = self.cascade(props, el)
        if sp.get("display") == "none":
            return []
        opacity = self.num(sp["opacity"]) if "opacity" in sp else 1
        if t == "svg":
            x = self.num(el.get("x")) if el.get("x") else 0
            y = self.num(el.get("y")) if el.get("y") else 0
            w = self.num(el.get("width")) if el.get("width") else viewport[2]
            h = self.num(el.get("height")) if el.get("height") else viewport[3]
            vp = [x, y, w, h]
            inner_vp = vp
            if el.get("viewBox"):
                vb = [self.num(v) for v in re.split(r"[\s,]+", el.get("viewBox").strip())]
                m = self.viewbox_transform(vb, vp, el.get("preserveAspectRatio") or "xMidYMid")
                inner_vp = vb
            else:
                m = (1, 0, 0, 1, x, y)
            new_clips = list(clips)
            if (sp.get("overflow") or el.get("overflow") or "hidden") != "visible":
                rect = [("M", (x, y)), ("L", (x + w, y)), ("L", (x + w, y + h)), ("L", (x, y + h)), ("L", (x, y)), ("Z", ())]
                new_clips.append(self.leaf(rect, ctm, "nonzero"))
            kids = self.children(el, self.mul(ctm, m), props, new_clips, inner_vp)
            return [Group(opacity, kids)]
        ctm = self.mul(ctm, self.parse_transform(el.get("transform")))
        if t == "use":
            # SVG 1.1 5.6: the use becomes a g whose transform is the use's transform with
            # translate(x,y) appended; that g carries the use's properties (incl. clip-path)
            x = self.num(el.get("x")) if el.get("x") else 0
            y = self.num(el.get("y")) if el.get("y") else 0
            ctm = self.mul(ctm, (1, 0, 0, 1, x, y))
        cp = sp.get("clip-path")
        if cp and cp != "none":
            clips = clips + [self.clip_region(cp, ctm, props)]
        if t == "g":
            return [Group(opacity, self.children(el, ctm, props, clips, viewport))]
        if t == "use":
            href = el.get("{%s}href" % XLINK) or el.get("href")
            ref = self.by_id.get(href[1:])
            if ref is None:
                raise Unsupported("dangling use")
            return [Group(opacity, self.element(ref, ctm, props, clips, viewport, via_use=True))]
        if t in ("rect", "line", "polygon", "polyline", "path"):
            # a (numerically) singular CTM collapses the shape: nothing is painted.
            # The threshold is the float epsilon, as any float implementation must use one.
            det = ctm[0] * ctm[3] - ctm[1] * ctm[2]
            if self.truth(self.absf(det) <= 2.220446049250313e-16):
                return []
            cmds = self.shape_cmds(el)
            items = []
            if props["fill"] != "none":
                r = self.leaf(cmds, ctm, props["fill-rule"])
                for c in clips:
                    r = self.op(FP.PathOp.INTERSECTION, r, c)
                items.append(Paint(r, props["fill"], props["fill-opacity"], tag="fill"))
            if props["stroke"] != "none":
                r = self.stroke_term(cmds, props, ctm, self.tolerance)
                for c in clips:
                    r = self.op(FP.PathOp.INTERSECTION, r, c)
                items.append(Paint(r, props["stroke"], props["stroke-opacity"], tag="stroke"))
            return [Group(opacity, items)]
        raise Unsupported(t)

    def viewbox_transform(self, vb, vp, par):
        """SVG 2 8.2 'equivalent transform of an SVG viewport'"""
        align, _, mos = par.strip().partition(" ")
        sx, sy = vp[2] / vb[2], vp[3] / vb[3]
        if align != "none":
            s = self.mx(sx, sy) if mos.strip() == "slice" else self.mn(sx, sy)
            sx = sy = s
        tx = vp[0] - vb[0] * sx
        ty = vp[1] - vb[1] * sy
        al = align.lower()
        if "xmid" in al:
            tx = tx + (vp[2] - vb[2] * sx) / 2
        elif "xmax" in al:
            tx = tx + (vp[2] - vb[2] * sx)
        if "ymid" in al:
            ty = ty + (vp[3] - vb[3] * sy) / 2
        elif "ymax" in al:
            ty = ty + (vp[3] - vb[3] * sy)
        return (sx, 0, 0, sy, tx, ty)


# -------------------------------------------------------------------- output reader
def read_pico(root, num, region_of_d):
    """paint tree of a picosvg-grammar document"""

    def path_item(e):
        fill = e.get("fill") or "black"
        a = 1
        if e.get("opacity"):
            a = a * num(e.get("opacity"))
        if e.get("fill-opacity"):
            a = a * num(e.get("fill-opacity"))
        if fill == "none":
            return []
        return [Paint(region_of_d(e.get("d") or "", e.get("fill-rule") or "nonzero"), fill, a, tag="out")]

    def walk(e):
        out = []
        for ch in e:
            if not isinstance(ch.tag, str):
                continue
            t = local(ch.tag)
            if t == "defs":
                continue
            if t == "g":
                op = num(ch.get("opacity")) if ch.get("opacity") else 1
                out.append(Group(op, walk(ch)))
            elif t == "path":
                out += path_item(ch)
            else:
                raise Unsupported(f"<{t}> in output")
        return out

    return Group(1, walk(root))
