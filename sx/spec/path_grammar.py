"""Recursive-descent recogniser of the SVG 1.1 path-data BNF (section 8.3.9) over
sx.symstr.SymStr (characters may be symbolic or concrete code points).

recognise(s) -> list of (command letter, [numbers]) in exploded form (implicit
repeats expanded, extra moveto pairs become lineto), or None when the string is
not in the language.  "The processing of the BNF must consume as much of a given
BNF production as possible" (maximal munch).  Never calls picosvg.
"""
from ..symstr import SymStr

WSP = (0x20, 0x9, 0xD, 0xA)
ARITY = {"m": 2, "z": 0, "l": 2, "h": 1, "v": 1, "c": 6, "s": 4, "q": 4, "t": 2, "a": 7}
LETTERS = "MmZzLlHhVvCcSsQqTtAa"


class _P:
    def __init__(self, s):
        self.s = s
        self.cs = s.cs
        self.i = 0
        self.n = len(s.cs)

    def peek_is(self, codes):
        return self.i < self.n and SymStr.one_of(self.cs[self.i], codes)

    def digit(self):
        return self.i < self.n and SymStr.in_range(self.cs[self.i], 48, 57)

    def wsp_star(self):
        k = 0
        while self.peek_is(WSP):
            self.i += 1
            k += 1
        return k

    def comma_wsp_opt(self):
        """comma-wsp?  -> True if something was consumed"""
        k = self.wsp_star()
        if self.peek_is((44,)):
            self.i += 1
            self.wsp_star()
            return True
        return k > 0

    def digits(self):
        k = 0
        while self.digit():
            self.i += 1
            k += 1
        return k

    def number(self, signed=True):
        """-> SymReal or None (position restored on failure)"""
        start = self.i
        if signed and self.peek_is((43, 45)):
            self.i += 1
        a = self.digits()
        b = 0
        if self.peek_is((46,)):
            save = self.i
            self.i += 1
            b = self.digits()
            if a == 0 and b == 0:
                self.i = start
                return None
        if a == 0 and b == 0:
            self.i = start
            return None
        # exponent (only if complete: maximal munch of a *valid* production)
        if self.peek_is((101, 69)):
            save = self.i
            self.i += 1
            if self.peek_is((43, 45)):
                self.i += 1
            if self.digits() == 0:
                self.i = save
        return self.s[start : self.i].to_float()

    def flag(self):
        if self.peek_is((48,)):
            self.i += 1
            return 0
        if self.peek_is((49,)):
            self.i += 1
            return 1
        return None

    def letter(self):
        if self.i >= self.n:
            return None
        c = self.cs[self.i]
        for L in LETTERS:
            if SymStr.is_char(c, ord(L)):
                return L
        return None


def recognise(s):
    p = _P(s)
    out = []
    p.wsp_star()
    if p.i == p.n:
        return out  # empty path data is allowed (svg-path: wsp* groups? wsp*)
    first = True
    while p.i < p.n:
        L = p.letter()
        if L is None:
            return None
        if first and L not in "Mm":
            return None
        first = False
        p.i += 1
        lo = L.lower()
        if lo == "z":
            out.append((L, []))
            p.wsp_star()
            continue
        p.wsp_star()
        reps = 0
        while True:
            args = _argument(p, lo)
            if args is None:
                if reps == 0:
                    return None
                break
            cmd = L
            if lo == "m" and reps > 0:
                cmd = "l" if L == "m" else "L"
            out.append((cmd, args))
            reps += 1
            save = p.i
            p.comma_wsp_opt()
            # another argument group must follow a consumed comma; if none follows, only
            # whitespace may have been consumed
            probe = p.i
            nxt = _argument(p, lo)
            if nxt is None:
                # restore: whitespace is fine before the next command, a dangling comma is not
                p.i = save
                k = p.wsp_star()
                if p.peek_is((44,)):
                    return None
                break
            p.i = probe
        p.wsp_star()
    return out


def _argument(p, lo):
    start = p.i
    vals = []

    def fail():
        p.i = start
        return None

    if lo == "a":
        rx = p.number(signed=False)
        if rx is None:
            return fail()
        p.comma_wsp_opt()
        ry = p.number(signed=False)
        if ry is None:
            return fail()
        p.comma_wsp_opt()
        rot = p.number()
        if rot is None:
            return fail()
        if not p.comma_wsp_opt():
            return fail()  # SVG 1.1: comma-wsp is mandatory between x-axis-rotation and the flag
        f1 = p.flag()
        if f1 is None:
            return fail()
        p.comma_wsp_opt()
        f2 = p.flag()
        if f2 is None:
            return fail()
        p.comma_wsp_opt()
        x = p.number()
        if x is None:
            return fail()
        p.comma_wsp_opt()
        y = p.number()
        if y is None:
            return fail()
        return [rx, ry, rot, f1, f2, x, y]
    n = ARITY[lo]
    for k in range(n):
        if k:
            p.comma_wsp_opt()
        v = p.number()
        if v is None:
            return fail()
        vals.append(v)
    return vals
