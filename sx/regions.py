"""Comparison of abstract-Skia region terms (DESIGN 1.4).

A region term is turned into a propositional formula over atoms "sample point
q lies inside leaf L"; leaves are identified when verbs and fill type agree and
their coordinates are *provably* equal under the path condition (one validity
query per candidate pair).  Two terms denote the same region (for every q) if
the formulas are propositionally equivalent.
"""
import z3

from . import fake_pathops as FP
from .values import SymReal, term_of


class Atoms:
    def __init__(self, ctx):
        self.ctx = ctx
        self.classes = []  # (representative leaf-ish term, z3 Bool)
        self.queries = 0

    def _coords_equal(self, ca, cb):
        if len(ca) != len(cb):
            return False
        eqs = []
        for x, y in zip(ca, cb):
            tx, ty = term_of(x), term_of(y)
            if tx.eq(ty):
                continue
            eqs.append(tx == ty)
        if not eqs:
            return True
        self.queries += 1
        verdict, _ = self.ctx.valid(z3.And(*eqs))
        return verdict == "valid"

    def atom_for_leaf(self, t):
        verbs, fill, coords = t.args
        for rep, b in self.classes:
            if rep.kind != "leaf":
                continue
            rv, rf, rc = rep.args
            if rv == verbs and rf == fill and self._coords_equal(rc, coords):
                return b
        b = z3.Bool(f"in!{len(self.classes)}")
        self.classes.append((t, b))
        return b

    def atom_for_opaque(self, t, params_a):
        """stroke / xf-of-opaque: atom keyed by child formula + provably equal params"""
        for rep, b in self.classes:
            if rep.kind != t.kind:
                continue
            if rep is t or rep.key == t.key:
                return b
        b = z3.Bool(f"in!{len(self.classes)}")
        self.classes.append((t, b))
        return b


def formula(t, atoms):
    k = t.kind
    if k == "empty":
        return z3.BoolVal(False)
    if k == "leaf":
        return atoms.atom_for_leaf(t)
    if k == "simplify":
        return formula(t.args[0], atoms)
    if k == "c2q":
        return formula(t.args[0], atoms)
    if k == "op":
        op, a, b = t.args
        fa, fb = formula(a, atoms), formula(b, atoms)
        if op == FP.PathOp.UNION:
            return z3.Or(fa, fb)
        if op == FP.PathOp.INTERSECTION:
            return z3.And(fa, fb)
        if op == FP.PathOp.DIFFERENCE:
            return z3.And(fa, z3.Not(fb))
        if op == FP.PathOp.XOR:
            return z3.Xor(fa, fb)
        if op == FP.PathOp.REVERSE_DIFFERENCE:
            return z3.And(fb, z3.Not(fa))
    if k in ("stroke", "xf"):
        return atoms.atom_for_opaque(t, None)
    raise ValueError(k)


def equivalent(ctx, exp, got, atoms=None):
    """-> (bool, info) : do the two terms denote the same region for every q"""
    atoms = atoms or Atoms(ctx)
    fe, fg = formula(exp, atoms), formula(got, atoms)
    s = z3.Solver()
    s.add(fe != fg)
    r = s.check()
    ctx.queries += 1
    return r == z3.unsat, {"expected": FP.pretty(exp), "got": FP.pretty(got), "atoms": len(atoms.classes)}


def term_of_commands(cmds, fill=FP.FillType.WINDING):
    """region term of an (absolute M/L/Q/C/Z) command list, as the abstract
    Skia would see it (recognises opaque results by their coordinates)"""
    verbs, coords = [], []
    for c, a in cmds:
        verbs.append(c.upper())
        coords.extend(a)
    return FP.leaf_term(verbs, fill, coords)
