"""Comparison of abstract-Skia region terms (DESIGN 1.4).

A region term is turned into a propositional formula over atoms "sample point
q lies inside leaf L"; leaves are identified when verbs and fill type agree and
their coordinates are *provably* equal under the path condition (one validity
query per candidate pair).  Two terms denote the same region (for every q) if
the formulas are propositionally equivalent.
"""
import z3

from . import fake_pathops as FP
from .values import SymReal, term_of


class Atoms:
    def __init__(self, ctx):
        self.ctx = ctx
        self.classes = []  # (representative term, z3 Bool)
        self.queries = 0
        self.failed_eqs = []  # numeric identifications that were refuted

    def _nums_equal(self, ca, cb):
        if len(ca) != len(cb):
            return False
        eqs = []
        for x, y in zip(ca, cb):
            tx, ty = term_of(x), term_of(y)
            if tx.eq(ty):
                continue
            eqs.append(tx == ty)
        if not eqs:
            return True
        self.queries += 1
        verdict, _ = self.ctx.valid(z3.And(*eqs))
        if verdict == "invalid" and len(self.failed_eqs) < 40:
            self.failed_eqs.append(z3.And(*eqs))
        return verdict == "valid"

    _coords_equal = _nums_equal

    def same(self, a, b):
        """do two (non-connective) region terms provably denote the same Skia input?"""
        while a.kind == "simplify":
            a = a.args[0]
        while b.kind == "simplify":
            b = b.args[0]
        if a is b or a.key == b.key:
            return True
        if a.kind != b.kind:
            # a transform that is provably the identity under the path condition
            for x, y in ((a, b), (b, a)):
                if x.kind == "xf" and self._nums_equal(list(x.args[1]), [1, 0, 0, 1, 0, 0]):
                    return self.same(x.args[0], y)
            return False
        if a.kind == "empty":
            return True
        if a.kind == "leaf":
            return a.args[0] == b.args[0] and a.args[1] == b.args[1] and self._nums_equal(a.args[2], b.args[2])
        if a.kind == "c2q":
            return self.same(a.args[0], b.args[0]) and self._nums_equal([a.args[1]], [b.args[1]])
        if a.kind == "xf":
            return self.same(a.args[0], b.args[0]) and self._nums_equal(list(a.args[1]), list(b.args[1]))
        if a.kind == "stroke":
            (ca, pa), (cb, pb) = a.args, b.args
            wa, capa, joina, ma, da, oa = pa
            wb, capb, joinb, mb, db, ob = pb
            if int(capa) != int(capb) or int(joina) != int(joinb) or len(da) != len(db):
                return False
            return self.same(ca, cb) and self._nums_equal([wa, ma, oa, *da], [wb, mb, ob, *db])
        if a.kind == "op":
            return a.args[0] == b.args[0] and self.same(a.args[1], b.args[1]) and self.same(a.args[2], b.args[2])
        return False

    def atom_for(self, t):
        for rep, b in self.classes:
            if self.same(rep, t):
                return b
        b = z3.Bool(f"in!{len(self.classes)}")
        self.classes.append((t, b))
        return b

    atom_for_leaf = atom_for


def formula(t, atoms):
    k = t.kind
    if k == "empty":
        return z3.BoolVal(False)
    if k == "leaf":
        if FP._no_interior(t):
            return z3.BoolVal(False)  # contours with fewer than 3 points cover no sample point
        return atoms.atom_for(t)
    if k == "simplify":
        return formula(t.args[0], atoms)
    if k == "op":
        op, a, b = t.args
        fa, fb = formula(a, atoms), formula(b, atoms)
        if op == FP.PathOp.UNION:
            return z3.Or(fa, fb)
        if op == FP.PathOp.INTERSECTION:
            return z3.And(fa, fb)
        if op == FP.PathOp.DIFFERENCE:
            return z3.And(fa, z3.Not(fb))
        if op == FP.PathOp.XOR:
            return z3.Xor(fa, fb)
        if op == FP.PathOp.REVERSE_DIFFERENCE:
            return z3.And(fb, z3.Not(fa))
    if k == "xf" and FP._no_interior(t):
        return z3.BoolVal(False)
    if k in ("stroke", "xf", "c2q"):
        return atoms.atom_for(t)
    raise ValueError(k)


def equivalent(ctx, exp, got, atoms=None):
    """-> (bool, info) : do the two terms denote the same region for every q"""
    atoms = atoms or Atoms(ctx)
    fe, fg = formula(exp, atoms), formula(got, atoms)
    s = z3.Solver()
    # results the abstract Skia returned EMPTY on this path (explorer fork, opt skia_may_return_empty):
    # the path is about inputs for which those regions contain no point
    for nt in FP._registry().get("empty_results", []):
        s.add(z3.Not(formula(nt, atoms)))
    s.add(fe != fg)
    r = s.check()
    ctx.queries += 1
    return r == z3.unsat, {"expected": FP.pretty(exp), "got": FP.pretty(got), "atoms": len(atoms.classes)}


def term_of_commands(cmds, fill=FP.FillType.WINDING):
    """region term of an (absolute M/L/Q/C/Z) command list, as the abstract
    Skia would see it (recognises opaque results by their coordinates)"""
    verbs, coords = [], []
    for c, a in cmds:
        verbs.append(c.upper())
        coords.extend(a)
    return FP.leaf_term(verbs, fill, coords)
