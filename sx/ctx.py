"""Path context + depth-first explorer by re-execution (DESIGN 1.3).

A harness is a function `h(ctx)`; it is a pure function of the decision
prefix.  Every branch on a symbolic value goes through `Ctx.branch`, finite
structure through `Ctx.choose`.  Property assertions go through `Ctx.check`
(validity under the path condition).
"""
import os
import time
import fractions
import z3


class Infeasible(BaseException):
    """Path condition became unsatisfiable (assume)."""


class Inconclusive(BaseException):
    """Budget exhausted / unsupported construct: never a verdict."""


class Concretize(TypeError):
    """A symbolic value was about to be swallowed by concrete code."""


CUR = None  # the active Ctx (one per process at a time)


def cur():
    if CUR is None:
        raise RuntimeError("no active sx context")
    return CUR


def frac_of_model_value(v, digits=40):
    """z3 numeral (rational / algebraic / int) -> Fraction"""
    if z3.is_int_value(v):
        return fractions.Fraction(v.as_long())
    if z3.is_rational_value(v):
        return fractions.Fraction(v.numerator_as_long(), v.denominator_as_long())
    if z3.is_algebraic_value(v):
        a = v.approx(digits)
        return fractions.Fraction(a.numerator_as_long(), a.denominator_as_long())
    raise ValueError(f"not a numeral: {v}")


def strengthen(t, e):
    """strengthen decided (dis)equalities/inequalities by margin e"""
    if z3.is_not(t):
        a = t.arg(0)
        if z3.is_le(a):  # not (x <= y)  ->  x >= y + e
            return a.arg(0) >= a.arg(1) + e
        if z3.is_ge(a):
            return a.arg(0) + e <= a.arg(1)
        if z3.is_lt(a):
            return a.arg(0) >= a.arg(1)
        if z3.is_gt(a):
            return a.arg(0) <= a.arg(1)
        if z3.is_eq(a) and a.arg(0).sort() == z3.RealSort():
            return z3.Or(a.arg(0) >= a.arg(1) + e, a.arg(0) + e <= a.arg(1))
        if z3.is_and(a):
            return z3.Or(*[strengthen(z3.Not(c), e) for c in a.children()])
        if z3.is_or(a):
            return z3.And(*[strengthen(z3.Not(c), e) for c in a.children()])
        if z3.is_not(a):
            return strengthen(a.arg(0), e)
        return t
    if z3.is_and(t):
        return z3.And(*[strengthen(c, e) for c in t.children()])
    if z3.is_or(t):
        return z3.Or(*[strengthen(c, e) for c in t.children()])
    if z3.is_lt(t):
        return t.arg(0) + e <= t.arg(1)
    if z3.is_gt(t):
        return t.arg(0) >= t.arg(1) + e
    if z3.is_distinct(t) and t.num_args() == 2:
        return z3.Or(t.arg(0) >= t.arg(1) + e, t.arg(0) + e <= t.arg(1))
    return t


def interior_model(assertions, eps, extra=None, timeout=3000):
    e = z3.RealVal(eps)
    s = z3.Solver()
    s.set("timeout", timeout)
    for a in assertions:
        s.add(strengthen(a, e))
    if extra is not None:
        s.add(strengthen(extra, e))
    if s.check() == z3.sat:
        return s.model()
    return None


def greedy_interior_model(assertions, extra=None, eps_list=("1", "1/100"), per_query_ms=400, budget_s=8.0):
    """When no uniform margin is feasible (e.g. an opacity product that must lie below 0.0005):
    keep every assertion, then strengthen them one at a time by the largest margin that stays
    satisfiable.  Costs one small query per assertion; used only for witnesses of refuted checks."""
    import time as _t

    s = z3.Solver()
    s.set("timeout", 3000)
    for a in assertions:
        s.add(a)
    if extra is not None:
        s.add(extra)
    if s.check() != z3.sat:
        return None
    best = s.model()
    s.set("timeout", per_query_ms)
    t0 = _t.time()
    todo = list(assertions) + ([extra] if extra is not None else [])
    for a in todo:
        if _t.time() - t0 > budget_s:
            break
        for eps in eps_list:
            f = strengthen(a, z3.RealVal(eps))
            if f is a or z3.eq(f, a):
                break
            s.push()
            s.add(f)
            if s.check() == z3.sat:
                best = s.model()
                break  # keep it (never popped)
            s.pop()
    return best


def spread_model(assertions, extra, inputs, eps=None, per_query_ms=300, budget_s=6.0):
    """Generic-position witness: keep the (margin-strengthened) constraints and pin as many inputs
    as stay satisfiable to distinct, moderate, non-zero values.  A refutation that does not depend
    on the numbers at all (a structural check) otherwise comes with an all-zero model on which
    nothing shows concretely."""
    import time as _t
    import zlib

    s = z3.Solver()
    s.set("timeout", 2000)
    e = z3.RealVal(eps) if eps is not None else None
    for a in assertions:
        s.add(strengthen(a, e) if e is not None else a)
    if extra is not None:
        s.add(strengthen(extra, e) if e is not None else extra)
    if s.check() != z3.sat:
        return None
    best = s.model()
    s.set("timeout", per_query_ms)
    t0 = _t.time()
    for i, (name, var) in enumerate(sorted(inputs.items())):
        if _t.time() - t0 > budget_s:
            break
        if not z3.is_real(var):
            continue
        r = zlib.crc32(name.encode())
        if name[:1] == "o":
            cands = [z3.RealVal(x) for x in ("1/2", "1/4", "3/4")]
        else:
            base = 2 + (r % 11) + (i % 5) * 13
            cands = [z3.Q(2 * base + 1, 2), z3.Q(-(2 * base + 1), 2), z3.Q(2 * (r % 7) + 1, 8)]
        for c in cands:
            s.push()
            s.add(var == c)
            if s.check() == z3.sat:
                best = s.model()
                break
            s.pop()
    return best


def faithful_round_model(assertions, extra, timeout=6000):
    """Witness in which every application of the uninterpreted round_n is a value the real round()
    can return: an integer multiple of 10^-n (the contract |R(x)-x| <= ulp/2 is already asserted).
    Used only for witnesses of refuted checks (as an exploration-time axiom it is too slow: probe P15)."""
    apps = {}

    def walk(t, seen):
        if t.get_id() in seen:
            return
        seen.add(t.get_id())
        if z3.is_app(t):
            name = t.decl().name()
            if name.startswith("sx_round_") and name != "sx_round_int" and t.num_args() == 1:
                apps[t.get_id()] = t
            for c in t.children():
                walk(c, seen)

    seen = set()
    for a in list(assertions) + ([extra] if extra is not None else []):
        walk(a, seen)
    if not apps:
        return None
    s = z3.Solver()
    s.set("timeout", timeout)
    for a in assertions:
        s.add(a)
    if extra is not None:
        s.add(extra)
    for i, t in enumerate(apps.values()):
        nd = t.decl().name()[len("sx_round_") :].replace("m", "-")
        try:
            n = int(nd)
        except ValueError:
            continue
        k = z3.Int(f"rk!{i}")
        s.add(t * z3.RealVal(10**n if n >= 0 else 1) == z3.ToReal(k) * (1 if n >= 0 else z3.RealVal(10 ** (-n))))
    if s.check() == z3.sat:
        return s.model()
    return None


class _ModelAdapter:
    """model living in another z3 context; evaluates main-context terms"""

    def __init__(self, model, c2):
        self.model = model
        self.c2 = c2

    def eval(self, t, model_completion=False):
        return self.model.eval(t.translate(self.c2), model_completion=model_completion)


class Failure:
    __slots__ = ("label", "inputs", "detail", "decisions", "alt_inputs")

    def __init__(self, label, inputs, detail, decisions, alt_inputs=None):
        self.alt_inputs = alt_inputs  # second witness in generic position (spread_model)
        self.label = label
        self.inputs = inputs  # name -> float (exact Fractions in 'exact')
        self.detail = detail
        self.decisions = decisions

    def as_dict(self):
        return {
            "label": self.label,
            "inputs": self.inputs,
            "detail": self.detail,
            "decisions": list(self.decisions),
            "alt_inputs": self.alt_inputs,
        }


class Ctx:
    def __init__(self, prefix=(), timeout_ms=10000, max_decisions=4000, opts=None):
        self.prefix = list(prefix)
        self.decisions = []
        self.pending = []  # prefixes discovered on this path
        self.solver = z3.Solver()
        self.solver.set("timeout", timeout_ms)
        self.timeout_ms = timeout_ms
        self.max_decisions = max_decisions
        self.opts = opts or {}
        self.known = {}  # term id -> bool decided on this path
        self.model = None
        self.queries = 0
        self.solver_s = 0.0
        self.unknown_branch = 0
        self.unknown_check = 0
        self.checks = 0
        self.failures = []
        self.inputs = {}  # name -> z3 const (declared inputs, for models)
        self.placeholders = {}  # token -> term
        self.ph_by_id = {}  # term id -> token
        self.fresh_n = 0
        self.notes = []
        self.assertions = []  # mirror of solver assertions (for fresh-solver retries)
        self.axiom_ids = set()
        self.trace_tags = []  # harness-defined tags describing the path
        self.div_cache = {}
        self.keepalive = []
        from . import symmath

        symmath.base_axioms(self)

    # ---- declarations -------------------------------------------------
    def real(self, name):
        from .values import SymReal

        if name in self.inputs:
            return SymReal(self.inputs[name])
        c = z3.Real(name)
        self.inputs[name] = c
        return SymReal(c)

    def fresh(self, stem="t"):
        self.fresh_n += 1
        return z3.Real(f"{stem}!{self.fresh_n}")

    # ---- solver plumbing ----------------------------------------------
    def _check(self, *assumptions):
        t0 = time.perf_counter()
        r = self.solver.check(*assumptions)
        self.solver_s += time.perf_counter() - t0
        self.queries += 1
        return r

    def _add(self, t):
        self.solver.add(t)
        self.assertions.append(t)
        if self.model is not None:
            try:
                if not z3.is_true(self.model.eval(t, model_completion=True)):
                    self.model = None
            except z3.Z3Exception:
                self.model = None

    def axiom(self, t, key=None):
        """A mathematical fact about an uninterpreted symbol (listed in evidence)."""
        k = key if key is not None else t.get_id()
        if k in self.axiom_ids:
            return
        self.axiom_ids.add(k)
        self._add(t)

    def assume(self, t):
        from .values import SymBool

        if isinstance(t, SymBool):
            t = t.t
        if isinstance(t, bool):
            if not t:
                raise Infeasible()
            return
        # z3.simplify is used only to detect constants: its rewriting of
        # `x*y >= 0` into sign conditions on the factors hurts later queries
        ts = z3.simplify(t)
        if z3.is_true(ts):
            return
        if z3.is_false(ts):
            raise Infeasible()
        self._add(t)
        self.known[ts.get_id()] = True
        self.keepalive.append((t, ts))
        r = self._check()
        if r == z3.unsat:
            raise Infeasible()
        if r == z3.sat:
            self.model = self.solver.model()
        else:
            self.model = None

    # ---- branching ------------------------------------------------------
    def branch(self, t):
        """Decide a symbolic boolean; forks when both sides are feasible.

        Every solver-decided outcome (forced or forked) is recorded in
        `decisions`, so a replayed prefix needs no feasibility queries.
        """
        if isinstance(t, bool):
            return t
        ts = z3.simplify(t)
        if z3.is_true(ts):
            return True
        if z3.is_false(ts):
            return False
        tid = ts.get_id()
        if tid in self.known:
            return self.known[tid]
        nts = z3.simplify(z3.Not(ts))
        nt = z3.Not(t)
        i = len(self.decisions)
        if i >= self.max_decisions:
            raise Inconclusive(f"decision budget {self.max_decisions} exhausted")
        if i < len(self.prefix):
            val = bool(self.prefix[i])
        else:
            side = None
            if self.model is not None:
                try:
                    mv = self.model.eval(t, model_completion=True)
                    if z3.is_true(mv):
                        side = True
                    elif z3.is_false(mv):
                        side = False
                except z3.Z3Exception:
                    side = None
            feas = []
            bms = self.opts.get("branch_ms")
            if bms:
                self.solver.set("timeout", bms)
            for want, term in ((True, t), (False, nt)):
                if side is want:
                    feas.append(want)
                    continue
                r = self._check(term)
                if r == z3.sat:
                    feas.append(want)
                    if self.model is None:
                        self.model = self.solver.model()
                elif r == z3.unknown:
                    # over-approximate: explore it (sound for "holds")
                    self.unknown_branch += 1
                    feas.append(want)
            if bms:
                self.solver.set("timeout", self.timeout_ms)
            if not feas:
                raise Infeasible()
            val = feas[0]
            if len(feas) == 2:
                self.pending.append(self.decisions + [0 if val else 1])
        self.decisions.append(1 if val else 0)
        self._add(t if val else nt)
        self.known[tid] = val
        self.known[nts.get_id()] = not val
        self.keepalive.append((t, nt, ts, nts))  # ids are only unique among live terms
        return val

    def choose(self, n, tag=None):
        """Fork over range(n) (finite structure; no solver involved)."""
        if n <= 0:
            raise Infeasible()
        if n == 1:
            return 0
        i = len(self.decisions)
        if i >= self.max_decisions:
            raise Inconclusive(f"decision budget {self.max_decisions} exhausted")
        if i < len(self.prefix):
            d = self.prefix[i]
        else:
            d = 0
            for alt in range(n - 1, 0, -1):
                self.pending.append(self.decisions + [alt])
        self.decisions.append(d)
        return d

    # ---- property checking ------------------------------------------------
    def valid(self, t):
        """(verdict, model): verdict in {'valid','invalid','unknown'} for pc => t"""
        from .values import SymBool

        if isinstance(t, SymBool):
            t = t.t
        if isinstance(t, bool):
            if t:
                return "valid", None
            r = self._check()
            if r == z3.sat:
                return "invalid", self.solver.model()
            return ("valid", None) if r == z3.unsat else ("unknown", None)
        if z3.is_true(z3.simplify(t)):
            return "valid", None
        # quick incremental attempt, then a fresh (tactic-based, nlsat) solver
        self.solver.set("timeout", min(self.timeout_ms, self.opts.get("incr_check_ms", 1500)))
        try:
            r = self._check(z3.Not(t))
        finally:
            self.solver.set("timeout", self.timeout_ms)
        if r == z3.unsat:
            return "valid", None
        if r == z3.sat:
            return "invalid", self.solver.model()
        # retry in a fresh non-incremental solver (enables nlsat etc.)
        r2, m2 = self._fresh_check(z3.Not(t))
        if r2 == z3.unsat:
            return "valid", None
        if r2 == z3.sat:
            return "invalid", m2
        return "unknown", None

    def _fresh_check(self, extra):
        """non-incremental portfolio: (1) sum-of-monomials normal form + smt
        (identical products become identical atoms), (2) default tactic solver"""
        t0 = time.perf_counter()
        r, m = z3.unknown, None
        # (0) linear abstraction over monomials: deterministic and fast when the
        # needed argument is linear in the products (the common case here)
        try:
            from .linabs import linearize

            lin, nm, _L = linearize(list(self.assertions) + [extra])
            if nm:
                s0 = z3.Solver()
                s0.set("timeout", min(self.timeout_ms, 6000))
                s0.add(lin)
                r0 = s0.check()
                self.queries += 1
                if r0 == z3.unsat:
                    self.solver_s += time.perf_counter() - t0
                    self.lin_proofs = getattr(self, "lin_proofs", 0) + 1
                    return z3.unsat, None
        except (z3.Z3Exception, OverflowError):
            pass
        # (0b) uninterpreted applications -> fresh constants, then nlsat (pure NRA)
        if self.opts.get("uf_abstraction", True):
            try:
                from .linabs import abstract_ufs

                afs, napps = abstract_ufs(list(self.assertions) + [extra])
                if True:
                    s1 = z3.Tactic("qfnra-nlsat").solver()
                    s1.set("timeout", min(self.timeout_ms, self.opts.get("nlsat_ms", 8000)))
                    s1.add(afs)
                    r1 = s1.check()
                    self.queries += 1
                    if r1 == z3.unsat:
                        self.solver_s += time.perf_counter() - t0
                        return z3.unsat, None
                    if r1 == z3.sat and napps == 0:
                        self.solver_s += time.perf_counter() - t0
                        return z3.sat, s1.model()
            except z3.Z3Exception:
                pass
        som = lambda **kw: z3.With("simplify", som=True, **kw)
        short = min(self.timeout_ms, 4000)
        attempts = []
        for seed in (0, 1, 2):
            sm = lambda seed=seed: z3.With("smt", random_seed=seed)
            attempts += [
                (lambda sm=sm: z3.Then(som(), sm()).solver(), short),
                (lambda sm=sm: z3.Then(som(arith_lhs=True), sm()).solver(), short),
                (lambda sm=sm: z3.Then(som(), "propagate-values", som(), sm()).solver(), short),
            ]
            if seed == 0:
                # pure polynomial queries: nlsat decides them (DESIGN probe P7)
                attempts.append((lambda: z3.Tactic("qfnra-nlsat").solver(), self.timeout_ms))
                attempts.append((lambda: z3.Solver(), self.timeout_ms))
        for i, (mk, tmo) in enumerate(attempts):
            try:
                s = mk()
                s.set("timeout", tmo)
                for a in self.assertions:
                    s.add(a)
                s.add(extra)
                r = s.check()
            except z3.Z3Exception:
                r = z3.unknown
            self.queries += 1
            if r != z3.unknown:
                m = s.model() if r == z3.sat else None
                break
            if i == 0:
                # same query re-parsed in a pristine z3 context: independent of the
                # AST numbering history of this process (observed to matter)
                r, m = self._pristine_check(extra)
                if r != z3.unknown:
                    break
        self.solver_s += time.perf_counter() - t0
        if r == z3.unknown and os.environ.get("SX_DUMP_UNKNOWN"):
            s = z3.Solver()
            for a in self.assertions:
                s.add(a)
            s.add(extra)
            with open(os.path.join(os.environ["SX_DUMP_UNKNOWN"], f"unk_{os.getpid()}_{self.queries}.smt2"), "w") as fp:
                fp.write(s.to_smt2())
        return r, m

    def _pristine_check(self, extra):
        base = z3.Solver()
        for a in self.assertions:
            base.add(a)
        base.add(extra)
        txt = base.to_smt2()
        c2 = z3.Context()
        fs = z3.parse_smt2_string(txt, ctx=c2)
        for mk in (
            lambda: z3.Then(z3.With("simplify", som=True, ctx=c2), z3.Tactic("smt", ctx=c2), ctx=c2).solver(),
            lambda: z3.Solver(ctx=c2),
        ):
            s = mk()
            s.set("timeout", min(self.timeout_ms, 8000))
            s.add(fs)
            r = s.check()
            self.queries += 1
            if r == z3.unsat:
                return z3.unsat, None
            if r == z3.sat:
                return z3.sat, _ModelAdapter(s.model(), c2)
        return z3.unknown, None

    def model_inputs(self, model):
        out = {}
        for name, c in self.inputs.items():
            v = model.eval(c, model_completion=True)
            try:
                out[name] = frac_of_model_value(v)
            except Exception:
                out[name] = fractions.Fraction(0)
        return out

    def check(self, t, label, detail=None):
        """Assert pc => t.  Records a Failure with a model when refuted."""
        self.checks += 1
        from .values import SymBool as _SB

        if isinstance(t, _SB):
            t = t.t
        verdict, model = self.valid(t)
        if verdict == "valid":
            return True
        if verdict == "unknown":
            self.unknown_check += 1
            self.notes.append(f"unknown: {label}")
            return None
        # prefer a witness in which every decided comparison (and the violation
        # itself) holds with a visible margin: survives float replay and float32 Skia
        if True:
            extra_ = z3.Not(t) if isinstance(t, z3.ExprRef) else None
            used_eps = None
            for eps in ("1", "1/100"):
                try:
                    rm = interior_model(self.assertions, eps, extra=extra_, timeout=2000)
                except z3.Z3Exception:
                    rm = None
                if rm is not None:
                    model = rm
                    used_eps = eps
                    break
            else:
                try:
                    rm = greedy_interior_model(self.assertions, extra=extra_)
                except z3.Z3Exception:
                    rm = None
                if rm is not None:
                    model = rm
        if self.opts.get("spread_witness", True):
            # second witness in generic position (tried after the first by the replay)
            try:
                sm = spread_model(self.assertions, extra_, self.inputs, eps=used_eps)
            except z3.Z3Exception:
                sm = None
            if sm is not None:
                self.spread_inputs = {k: str(v) for k, v in self.model_inputs(sm).items()}
            else:
                self.spread_inputs = None
        inputs = self.model_inputs(model)
        alts = []
        if getattr(self, "spread_inputs", None):
            alts.append(self.spread_inputs)
        try:
            fm = faithful_round_model(self.assertions, extra_)
        except z3.Z3Exception:
            fm = None
        if fm is not None:
            alts.append({k: str(v) for k, v in self.model_inputs(fm).items()})
        self.failures.append(
            Failure(
                label,
                {k: str(v) for k, v in inputs.items()},
                detail,
                tuple(self.decisions),
                alt_inputs=alts or None,
            )
        )
        self._last_failure_model = model
        return False

    def fail(self, label, detail=None):
        """A concrete (structure-level) property failure on this path."""
        return self.check(False, label, detail)

    def any_model(self):
        if self.model is not None:
            return self.model
        r = self._check()
        if r == z3.sat:
            self.model = self.solver.model()
            return self.model
        return None

    def eval_float(self, model, v):
        from .values import SymReal

        if isinstance(v, SymReal):
            return float(frac_of_model_value(model.eval(v.t, model_completion=True)))
        return float(v)


class NullCtx:
    """context for concrete (float) runs of a harness: only carries the registries
    that helper code keys on the current context"""

    def __init__(self):
        self.opts = {}
        self.keepalive = []
        self.trace_tags = []
        self.queries = 0


class concrete_context:
    def __enter__(self):
        global CUR
        self._old = CUR
        CUR = NullCtx()
        return CUR

    def __exit__(self, *a):
        global CUR
        CUR = self._old


class PathResult:
    __slots__ = (
        "decisions",
        "status",
        "failures",
        "queries",
        "solver_s",
        "checks",
        "unknown_check",
        "unknown_branch",
        "notes",
        "tags",
        "result",
        "error",
        "validated",
    )


def explore(
    harness,
    *,
    timeout_ms=10000,
    max_paths=100000,
    max_decisions=4000,
    opts=None,
    on_path=None,
    deadline=None,
):
    """Run `harness(ctx)` on every feasible decision prefix (DFS).

    Returns dict with counters, list of failures, inconclusive notes.
    `on_path(ctx, ret)` is called at the end of each completed path (used for
    translator validation and sampling).
    """
    global CUR
    work = [[]]
    stats = {
        "paths": 0,
        "infeasible": 0,
        "queries": 0,
        "solver_s": 0.0,
        "checks": 0,
        "unknown_check": 0,
        "unknown_branch": 0,
        "inconclusive": [],
        "failures": [],
        "truncated": False,
        "max_depth": 0,
    }
    while work:
        if stats["paths"] >= max_paths or (deadline and time.time() > deadline):
            stats["truncated"] = True
            stats["inconclusive"].append(
                f"exploration truncated with {len(work)} prefixes pending"
            )
            break
        prefix = work.pop()
        ctx = Ctx(prefix, timeout_ms=timeout_ms, max_decisions=max_decisions, opts=opts)
        CUR = ctx
        ret = None
        try:
            ret = harness(ctx)
            status = "done"
        except Infeasible:
            status = "infeasible"
        except Inconclusive as e:
            status = "inconclusive"
            stats["inconclusive"].append(f"{e} @ {ctx.decisions[:40]}")
        except Concretize as e:
            status = "inconclusive"
            import traceback

            tb = traceback.extract_tb(e.__traceback__)
            where = "; ".join(f"{f.name}:{f.lineno}" for f in tb[-4:])
            stats["inconclusive"].append(f"concretize: {e} [{where}]")
        finally:
            CUR = None
        work.extend(ctx.pending)
        stats["queries"] += ctx.queries
        stats["solver_s"] += ctx.solver_s
        stats["checks"] += ctx.checks
        stats["unknown_check"] += ctx.unknown_check
        stats["unknown_branch"] += ctx.unknown_branch
        stats["max_depth"] = max(stats["max_depth"], len(ctx.decisions))
        for n in ctx.notes:
            if n.startswith("unknown"):
                stats["inconclusive"].append(n)
        if status == "infeasible":
            stats["infeasible"] += 1
            continue
        stats["paths"] += 1
        for f in ctx.failures:
            stats["failures"].append(f.as_dict())
        if status == "done" and on_path is not None:
            CUR = ctx
            try:
                on_path(ctx, ret)
            finally:
                CUR = None
    return stats
