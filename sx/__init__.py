"""SX: bounded symbolic execution of picosvg's own source with z3.

See /verif/DESIGN.md section 1.
"""
