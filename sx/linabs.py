"""Linear abstraction over monomials (sound for validity).

Every arithmetic term is expanded into a polynomial over *atoms* (variables,
uninterpreted applications, arithmetic ite's); each nonlinear monomial becomes
one fresh real variable (the same for the same multiset of atoms).  The result
is linear real arithmetic + UF + ite, which z3 decides quickly and
deterministically.  unsat(abstraction) => unsat(original); sat says nothing.

Done by hand rather than with z3's `simplify(som=True)` because that simplifier
rewrites `x*y >= 0` into sign conditions on the factors, which disconnects
|x*y| from the monomial variable.
"""
import fractions

import z3

F = fractions.Fraction


class Lin:
    MAX_TERMS = 4000

    def __init__(self):
        self.mono = {}
        self.keep = []
        self.pcache = {}
        self.fcache = {}
        self.atom_of = {}  # id of original atom term -> linearized atom term

    # --- polynomials: dict {tuple(sorted atom ids) : Fraction} ---------------
    def _atom(self, a):
        """a is an (already linearized) z3 real term used as an indivisible atom"""
        self.keep.append(a)
        return {(a.get_id(),): F(1)}, a

    def poly(self, t):
        i = t.get_id()
        r = self.pcache.get(i)
        if r is not None:
            return r
        r = self._poly(t)
        if len(r) > self.MAX_TERMS:
            raise OverflowError("polynomial too large")
        self.pcache[i] = r
        self.keep.append(t)
        return r

    def _num(self, t):
        if z3.is_int_value(t):
            return F(t.as_long())
        if z3.is_rational_value(t):
            return F(t.numerator_as_long(), t.denominator_as_long())
        return None

    def _poly(self, t):
        c = self._num(t)
        if c is not None:
            return {(): c} if c != 0 else {}
        if not z3.is_app(t):
            return self._mk_atom(t)
        k = t.decl().kind()
        ch = t.children()
        if k == z3.Z3_OP_ADD:
            out = {}
            for x in ch:
                for m, v in self.poly(x).items():
                    out[m] = out.get(m, 0) + v
            return {m: v for m, v in out.items() if v != 0}
        if k == z3.Z3_OP_SUB:
            out = dict(self.poly(ch[0]))
            for x in ch[1:]:
                for m, v in self.poly(x).items():
                    out[m] = out.get(m, 0) - v
            return {m: v for m, v in out.items() if v != 0}
        if k == z3.Z3_OP_UMINUS:
            return {m: -v for m, v in self.poly(ch[0]).items()}
        if k == z3.Z3_OP_MUL:
            out = {(): F(1)}
            for x in ch:
                px = self.poly(x)
                new = {}
                for m1, v1 in out.items():
                    for m2, v2 in px.items():
                        m = tuple(sorted(m1 + m2))
                        new[m] = new.get(m, 0) + v1 * v2
                out = {m: v for m, v in new.items() if v != 0}
                if len(out) > self.MAX_TERMS:
                    raise OverflowError("polynomial too large")
            return out
        if k == z3.Z3_OP_DIV:
            d = self._num(z3.simplify(ch[1]))
            if d is not None and d != 0:
                return {m: v / d for m, v in self.poly(ch[0]).items()}
            return self._mk_atom(t)
        if k == z3.Z3_OP_ITE:
            a = z3.If(self.form(ch[0]), self.term(self.poly(ch[1])), self.term(self.poly(ch[2])))
            return self._mk_atom(a, already=True)
        if k == z3.Z3_OP_TO_REAL:
            return self._mk_atom(t)
        if k == z3.Z3_OP_UNINTERPRETED and ch:
            a = t.decl()(*[self.term(self.poly(x)) if x.sort() == z3.RealSort() else x for x in ch])
            return self._mk_atom(a, already=True)
        return self._mk_atom(t)

    def _mk_atom(self, a, already=False):
        self.keep.append(a)
        self.atom_of[a.get_id()] = a
        return {(a.get_id(),): F(1)}

    def _monovar(self, m):
        if len(m) == 1:
            return self.atom_of[m[0]]
        v = self.mono.get(m)
        if v is None:
            v = self.mono[m] = z3.Real(f"mono!{len(self.mono)}")
        return v

    def term(self, p):
        if not p:
            return z3.RealVal(0)
        parts = []
        for m, c in sorted(p.items(), key=lambda kv: kv[0]):
            cv = z3.RealVal(f"{c.numerator}/{c.denominator}")
            if not m:
                parts.append(cv)
            elif c == 1:
                parts.append(self._monovar(m))
            else:
                parts.append(cv * self._monovar(m))
        r = parts[0]
        for x in parts[1:]:
            r = r + x
        return r

    # --- formulas --------------------------------------------------------------
    def form(self, f):
        i = f.get_id()
        r = self.fcache.get(i)
        if r is not None:
            return r
        r = self._form(f)
        self.fcache[i] = r
        self.keep.append(f)
        return r

    def _form(self, f):
        if not z3.is_app(f) or f.num_args() == 0:
            return f
        k = f.decl().kind()
        ch = f.children()
        if k in (z3.Z3_OP_LE, z3.Z3_OP_LT, z3.Z3_OP_GE, z3.Z3_OP_GT):
            d = dict(self.poly(ch[0]))
            for m, v in self.poly(ch[1]).items():
                d[m] = d.get(m, 0) - v
            lhs = self.term({m: v for m, v in d.items() if v != 0})
            z = z3.RealVal(0)
            return {z3.Z3_OP_LE: lhs <= z, z3.Z3_OP_LT: lhs < z, z3.Z3_OP_GE: lhs >= z, z3.Z3_OP_GT: lhs > z}[k]
        if k in (z3.Z3_OP_EQ, z3.Z3_OP_DISTINCT) and ch[0].sort() == z3.RealSort():
            if k == z3.Z3_OP_DISTINCT and len(ch) != 2:
                return f
            d = dict(self.poly(ch[0]))
            for m, v in self.poly(ch[1]).items():
                d[m] = d.get(m, 0) - v
            lhs = self.term({m: v for m, v in d.items() if v != 0})
            return (lhs == 0) if k == z3.Z3_OP_EQ else (lhs != 0)
        if f.sort() == z3.BoolSort():
            kids = [self.form(c) if c.sort() == z3.BoolSort() else c for c in ch]
            try:
                return f.decl()(*kids)
            except z3.Z3Exception:
                return f
        return f


def linearize(fs):
    L = Lin()
    out = [L.form(f) for f in fs]
    return out, len(L.mono), L


def abstract_ufs(fs):
    """Replace every uninterpreted function application by a fresh real constant
    (the same constant for the same application).  Forgets functional
    consistency only: unsat(result) => unsat(original).  Makes the query pure
    polynomial arithmetic so that nlsat applies."""
    cache = {}
    apps = {}
    keep = []

    def tr(t):
        i = t.get_id()
        r = cache.get(i)
        if r is not None:
            return r
        if not z3.is_app(t) or t.num_args() == 0:
            cache[i] = t
            return t
        kids = [tr(c) for c in t.children()]
        if t.decl().kind() == z3.Z3_OP_UNINTERPRETED:
            key = (t.decl().name(), tuple(k.get_id() for k in kids))
            v = apps.get(key)
            if v is None:
                v = apps[key] = z3.Const(f"uf!{len(apps)}", t.sort())
            keep.append(kids)
            cache[i] = v
            return v
        r = t.decl()(*kids)
        keep.append(t)
        cache[i] = r
        return r

    return [tr(f) for f in fs], len(apps)
