"""`math` for the loaded modules: libm functions as uninterpreted symbols.

Concrete arguments use the real `math`.  Symbolic arguments yield
uninterpreted applications plus the axioms listed here (mathematical facts,
instantiated at the terms that occur; quantifier-free).  Which optional axiom
groups are active is chosen by the harness through ctx.opts["axioms"].
"""
import math as _m
import fractions
import z3

from . import ctx as C
from .values import SymReal, term_of, SymBool

R = z3.RealSort()
_sin = z3.Function("sx_sin", R, R)
_cos = z3.Function("sx_cos", R, R)
_tan = z3.Function("sx_tan", R, R)
_atan2 = z3.Function("sx_atan2", R, R, R)
_sqrt = z3.Function("sx_sqrt", R, R)
_hypot = z3.Function("sx_hypot", R, R, R)
_round = {}  # ndigits -> Function
_roundint = z3.Function("sx_round_int", R, R)
_ceil = z3.Function("sx_ceil", R, R)

_pf = fractions.Fraction(_m.pi)
PI = z3.RealVal(f"{_pf.numerator}/{_pf.denominator}")  # the float math.pi, exactly

AXIOMS_USED = set()  # names, reported in evidence


def base_axioms(ctx):
    return


def _sym(*xs):
    return any(isinstance(x, SymReal) for x in xs)


def _ax(name):
    AXIOMS_USED.add(name)


def _opt(name):
    return name in C.cur().opts.get("axioms", ())


def _snap(v):
    """opt snap_trig: concrete sin/cos values become the nearest rational with denominator <= 10^6
    (|error| < 1e-12; the harness' tolerances absorb it): big-denominator float coefficients make
    nlsat slow by orders of magnitude (DESIGN probe P14)"""
    if C.cur().opts.get("snap_trig"):
        fr = fractions.Fraction(v).limit_denominator(10**6)
        if abs(fr - fractions.Fraction(v)) < fractions.Fraction(1, 10**12):
            return SymReal(z3.RealVal(f"{fr.numerator}/{fr.denominator}"))
    return v


def sin(x):
    if not _sym(x):
        return _snap(_m.sin(x))
    _trig_axioms(x.t)
    return SymReal(_sin(x.t))


def cos(x):
    if not _sym(x):
        return _snap(_m.cos(x))
    _trig_axioms(x.t)
    return SymReal(_cos(x.t))


def _trig_axioms(t):
    ctx = C.cur()
    ctx.keepalive.append(t)
    if _opt("pythagoras"):
        _ax("sin(x)^2+cos(x)^2=1")
        ctx.axiom(_sin(t) * _sin(t) + _cos(t) * _cos(t) == 1, ("pyth", t.get_id()))
    if _opt("trig_range"):
        _ax("-1<=sin,cos<=1")
        ctx.axiom(
            z3.And(_sin(t) <= 1, _sin(t) >= -1, _cos(t) <= 1, _cos(t) >= -1),
            ("trange", t.get_id()),
        )
    if _opt("trig_neg"):
        _ax("sin(-x)=-sin(x),cos(-x)=cos(x)")
        nt = z3.simplify(-t)
        ctx.axiom(
            z3.And(_sin(nt) == -_sin(t), _cos(nt) == _cos(t)), ("tneg", t.get_id())
        )


def tan(x):
    if not _sym(x):
        return _m.tan(x)
    if _opt("tan_def"):
        _ax("tan(x)*cos(x)=sin(x)")
        C.cur().axiom(_tan(x.t) * _cos(x.t) == _sin(x.t), ("tan", x.t.get_id()))
    return SymReal(_tan(x.t))


def atan2(y, x):
    if not _sym(y, x):
        return _m.atan2(y, x)
    yt, xt = term_of(y), term_of(x)
    r = _atan2(yt, xt)
    ctx = C.cur()
    _ax("-pi<=atan2<=pi")
    ctx.axiom(z3.And(r >= -PI, r <= PI), ("atan2r", r.get_id()))
    if _opt("atan2_def"):
        _ax("hypot(y,x)*(cos,sin)(atan2(y,x))=(x,y)")
        h = _hypot_term(yt, xt)
        ctx.axiom(
            z3.And(h * _cos(r) == xt, h * _sin(r) == yt), ("atan2d", r.get_id())
        )
        ctx.axiom(
            _sin(r) * _sin(r) + _cos(r) * _cos(r) == 1, ("pyth", r.get_id())
        )
    return SymReal(r)


def _hypot_term(a, b):
    ctx = C.cur()
    h = _hypot(a, b)
    _ax("hypot(a,b)^2=a^2+b^2, hypot>=0")
    ctx.axiom(z3.And(h * h == a * a + b * b, h >= 0), ("hyp", h.get_id()))
    return h


def hypot(a, b):
    if not _sym(a, b):
        return _m.hypot(a, b)
    return SymReal(_hypot_term(term_of(a), term_of(b)))


def sqrt(x):
    if not _sym(x):
        return _m.sqrt(x)
    ctx = C.cur()
    if ctx.branch(x.t < 0):
        raise ValueError("math domain error")
    s = _sqrt(x.t)
    _ax("sqrt(x)^2=x, sqrt>=0 (x>=0)")
    ctx.axiom(z3.And(s * s == x.t, s >= 0), ("sqrt", s.get_id()))
    return SymReal(s)


def radians(x):
    if not _sym(x):
        return _m.radians(x)
    _ax("radians(x)=x*pi/180")
    return SymReal(x.t * PI / 180)


def degrees(x):
    if not _sym(x):
        return _m.degrees(x)
    return SymReal(x.t * 180 / PI)


def fabs(x):
    if not _sym(x):
        return _m.fabs(x)
    # fork on the sign (usually decided by the path condition already): keeps If-terms out of the
    # nonlinear queries that follow (arc radii)
    if C.cur().branch(x.t >= 0):
        return x
    return -x


def isfinite(x):
    if not _sym(x):
        return _m.isfinite(x)
    return True  # reals are finite


def isnan(x):
    if not _sym(x):
        return _m.isnan(x)
    return False


def ceil(x):
    if not _sym(x):
        return _m.ceil(x)
    ctx = C.cur()
    c = _ceil(x.t)
    _ax("ceil(x)-1<x<=ceil(x), ceil integral")
    k = z3.Int(f"ceil!{c.get_id()}")
    ctx.axiom(z3.And(c == z3.ToReal(k), c - 1 < x.t, x.t <= c), ("ceil", c.get_id()))
    return SymReal(c)


def floor(x):
    if not _sym(x):
        return _m.floor(x)
    return -ceil(-x)


def sym_round(x, ndigits=None):
    """round() contract: |R(x)-x| <= 1/2 ulp_n, R(R(x)) = R(x), monotone-free."""
    ctx = C.cur()
    if ctx.opts.get("round_identity"):
        return x
    if ndigits is None:
        f = _roundint
        half = z3.RealVal("1/2")
    else:
        f = _round.get(ndigits)
        if f is None:
            f = _round[ndigits] = z3.Function(f"sx_round_{ndigits}".replace("-", "m"), R, R)
        half = z3.RealVal(f"1/{2 * 10 ** ndigits}" if ndigits >= 0 else f"{10 ** (-ndigits)}/2")
    if z3.is_app(x.t) and x.t.num_args() == 1 and x.t.decl().eq(f):
        return x  # R(R(x)) = R(x): already rounded to this precision (contract)
    t = z3.simplify(x.t)
    if z3.is_rational_value(t) or z3.is_int_value(t):
        fr = C.frac_of_model_value(t)
        if ndigits is None:
            return round(fr)
        r = round(float(fr), ndigits)
        return SymReal(term_of(r))
    r = f(t)
    _ax("|round_n(x)-x|<=0.5*10^-n; round_n(round_n(x))=round_n(x); round_n(0)=0; round_n(1)=1")
    # representable values are fixed points: instantiated for 0 and 1, the literals the code
    # compares rounded attributes with (opacity defaults)
    ctx.axiom(
        z3.And(r - t <= half, t - r <= half, f(r) == r, z3.Implies(t == 0, r == 0), z3.Implies(t == 1, r == 1)),
        ("round", r.get_id()),
    )
    if ctx.opts.get("round_integral"):
        # the rounded value is a multiple of 10^-n: pins the model to the real
        # round() (up to ties), so that witnesses replay with floats
        _ax("round_n(x)*10^n is an integer")
        scale = 10 ** (ndigits or 0)
        kint = z3.Int(f"rint!{r.get_id()}")
        ctx.axiom(r * scale == z3.ToReal(kint), ("roundint", r.get_id()))
    return SymReal(r)


def round_fn(ndigits):
    f = _round.get(ndigits)
    if f is None:
        f = _round[ndigits] = z3.Function(f"sx_round_{ndigits}".replace("-", "m"), R, R)
    return f


pi = _m.pi
e = _m.e
inf = _m.inf
nan = _m.nan
tau = _m.tau


def __getattr__(name):
    # anything else: the real math (concrete only)
    return getattr(_m, name)
