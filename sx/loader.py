"""Instrumented loader (DESIGN 1.1): executes picosvg's *own source text*,
read from /repo on every run, in private modules whose builtins are replaced so
that the duck-typed numeric code computes on z3-backed values.
"""
import ast
import builtins
import os
import sys
import types
import itertools

from . import ctx as C
from . import symmath
from .values import (
    SymReal,
    SxFloat,
    SxInt,
    sx_isinstance,
    sym_min,
    sym_max,
    placeholder,
    PH_OPEN,
)

REPO = os.environ.get("SX_REPO", "/repo")
SRC = os.path.join(REPO, "src", "picosvg")

MODULE_ORDER = (
    "geometric_types",
    "svg_meta",
    "svg_transform",
    "arc_to_cubic",
    "svg_path_iter",
    "svg_pathops",
    "svg_types",
    "svg_reuse",
    "svg",
)

_load_counter = itertools.count()


# --- sets ----------------------------------------------------------------
class SxSet:
    """List-backed set.  Membership of symbolic numbers is decided by `==`
    (a hash lookup would silently answer False); iteration order is insertion
    order, or solver-explorer chosen when opts['set_order']=='symbolic' (C16).
    """

    _frozen = False

    def __init__(self, it=()):
        self._items = []
        self._index = {}
        for x in it:
            self.add(x, _init=True)

    def _key(self, x):
        try:
            hash(x)
            return x
        except TypeError:
            return None

    def add(self, x, _init=False):
        if self._frozen and not _init:
            raise AttributeError("frozenset is immutable")
        if x in self:
            return
        if not isinstance(x, SymReal):
            self._index[x] = len(self._items)
        self._items.append(x)
        self._order_cache = None

    def __contains__(self, x):
        if isinstance(x, SymReal):
            for m in self._items:
                if isinstance(m, (int, float, SymReal)) and not isinstance(m, bool):
                    if x == m:  # SymBool -> branch
                        return True
            return False
        try:
            if x in self._index:
                return True
        except (TypeError, C.Concretize):
            pass
        for m in self._items:
            if isinstance(m, SymReal) and isinstance(x, (int, float)):
                if m == x:
                    return True
        return False

    def discard(self, x):
        if x in self._index:
            del self._index[x]
            self._items = [m for m in self._items if not (m is x or m == x)]
            self._order_cache = None

    def remove(self, x):
        if x not in self._index:
            raise KeyError(x)
        self.discard(x)

    def update(self, *its):
        for it in its:
            for x in it:
                self.add(x)

    def clear(self):
        self._items = []
        self._index = {}

    def copy(self):
        return type(self)(self._items)

    def __len__(self):
        return len(self._items)

    def __bool__(self):
        return bool(self._items)

    def _ordered(self):
        items = list(self._items)
        ctx = C.CUR
        cached = getattr(self, "_order_cache", None)
        if cached is not None and cached[0] == len(items) and cached[2] is ctx:
            # a set's iteration order is stable while it is not modified
            return [items[i] for i in cached[1]]
        if ctx is not None and ctx.opts.get("set_order") == "symbolic" and len(items) > 1:
            ev = getattr(ctx, "set_events", 0)
            ctx.set_events = ev + 1
            site = ctx.opts.get("set_order_site")
            if site is not None and site != ev:
                # one-at-a-time exploration: only the chosen iteration event is permuted
                self._order_cache = (len(items), tuple(range(len(items))), ctx)
                return items
            # explorer-chosen iteration order: rotations and reversals (every
            # pair of elements occurs in both orders); all permutations <= 3
            n = len(items)
            if n <= 3:
                perms = list(itertools.permutations(range(n)))
            elif n <= 6:
                perms = [tuple((i + r) % n for i in range(n)) for r in range(n)]
                perms += [tuple(reversed(p)) for p in perms]
            else:
                # identity + reversal already put every pair of elements in both orders
                ident = tuple(range(n))
                perms = [ident, tuple(reversed(ident)), tuple((i + 1) % n for i in range(n)), tuple((i + n // 2) % n for i in range(n))]
            k = ctx.choose(len(perms))
            self._order_cache = (len(items), perms[k], ctx)
            items = [items[i] for i in perms[k]]
        return items

    def __iter__(self):
        return iter(self._ordered())

    def __or__(self, o):
        r = SxSet(self._items)
        r.update(o)
        return r

    def __and__(self, o):
        return type(self)(x for x in self._items if x in o)

    def __sub__(self, o):
        return type(self)(x for x in self._items if x not in o)

    def __le__(self, o):
        return all(x in o for x in self._items)

    def __eq__(self, o):
        if isinstance(o, (SxSet, set, frozenset)):
            return len(self) == len(o) and all(x in o for x in self._items)
        return NotImplemented

    def __hash__(self):
        if self._frozen:
            return hash(frozenset(self._index))
        raise TypeError("unhashable type: 'set'")

    def __repr__(self):
        return "{" + ", ".join(repr(x) for x in self._items) + "}"

    def isdisjoint(self, o):
        return not any(x in o for x in self._items)

    def issubset(self, o):
        return self <= o

    def union(self, *o):
        r = SxSet(self._items)
        r.update(*o)
        return r


class SxFrozenSet(SxSet):
    _frozen = True


def _sx_set(items):
    return SxSet(items)


class _SetRewriter(ast.NodeTransformer):
    def __init__(self):
        self.count = 0

    def visit_Set(self, node):
        self.generic_visit(node)
        self.count += 1
        return ast.copy_location(
            ast.Call(
                func=ast.Name(id="__sx_set__", ctx=ast.Load()),
                args=[ast.List(elts=node.elts, ctx=ast.Load())],
                keywords=[],
            ),
            node,
        )

    def visit_SetComp(self, node):
        self.generic_visit(node)
        self.count += 1
        return ast.copy_location(
            ast.Call(
                func=ast.Name(id="__sx_set__", ctx=ast.Load()),
                args=[ast.ListComp(elt=node.elt, generators=node.generators)],
                keywords=[],
            ),
            node,
        )


class SetOpRewriter(ast.NodeTransformer):
    """`a & b`, `a | b`, `a ^ b`, `a - b` -> __sx_setop__(op, a, b): when the result is a builtin
    set/frozenset (dict views, C-level set algebra) it becomes an order-aware SxSet, so its iteration
    order is explorer-chosen like that of every other set (C16).  Used via load(extra_ast=...)."""

    OPS = {ast.BitAnd: "&", ast.BitOr: "|", ast.BitXor: "^", ast.Sub: "-"}

    def __init__(self):
        self.count = 0

    def visit_BinOp(self, node):
        self.generic_visit(node)
        sym = self.OPS.get(type(node.op))
        if sym is None:
            return node
        self.count += 1
        return ast.copy_location(
            ast.Call(func=ast.Name(id="__sx_setop__", ctx=ast.Load()), args=[ast.Constant(value=sym), node.left, node.right], keywords=[]),
            node,
        )


def _sx_setop(sym, a, b):
    if sym == "-":
        r = a - b
    elif sym == "&":
        r = a & b
    elif sym == "|":
        r = a | b
    else:
        r = a ^ b
    if type(r) is set:
        return SxSet(sorted(r, key=repr))
    if type(r) is frozenset:
        return SxFrozenSet(sorted(r, key=repr))
    return r


class _SnapCut(ast.NodeTransformer):
    """Locates `next_pos != subpath_start and next_pos.almost_equals(subpath_start)`
    (svg_types._rewrite_path) by AST pattern and routes it through __sx_snap__,
    which applies the deliberate cut of DESIGN 2 'Pipeline properties' when the
    harness asks for it (opts['snap_cut']); otherwise the original test runs."""

    def __init__(self):
        self.count = 0

    def visit_BoolOp(self, node):
        self.generic_visit(node)
        if (
            isinstance(node.op, ast.And)
            and len(node.values) == 2
            and isinstance(node.values[0], ast.Compare)
            and len(node.values[0].ops) == 1
            and isinstance(node.values[0].ops[0], ast.NotEq)
            and isinstance(node.values[1], ast.Call)
            and isinstance(node.values[1].func, ast.Attribute)
            and node.values[1].func.attr == "almost_equals"
            and len(node.values[1].args) == 1
            and ast.dump(node.values[0].left) == ast.dump(node.values[1].func.value)
            and ast.dump(node.values[0].comparators[0]) == ast.dump(node.values[1].args[0])
        ):
            self.count += 1
            thunk = ast.Lambda(
                args=ast.arguments(posonlyargs=[], args=[], kwonlyargs=[], kw_defaults=[], defaults=[]),
                body=node,
            )
            return ast.copy_location(
                ast.Call(
                    func=ast.Name(id="__sx_snap__", ctx=ast.Load()),
                    args=[thunk, node.values[0].left, node.values[0].comparators[0]],
                    keywords=[],
                ),
                node,
            )
        return node


class _IfConvert(ast.NodeTransformer):
    """`if almost_equal(X, K): X = C`  ->  `X = __sx_ite__(lambda: almost_equal(X, K), lambda: C, X)`

    If-conversion of a side-effect-free conditional assignment: with a symbolic
    condition the new value is the term ite(cond, C, X) (no fork); with a
    concrete condition it behaves exactly like the original statement."""

    def __init__(self):
        self.count = 0

    def visit_If(self, node):
        self.generic_visit(node)
        if (
            not node.orelse
            and len(node.body) == 1
            and isinstance(node.body[0], ast.Assign)
            and len(node.body[0].targets) == 1
            and isinstance(node.body[0].targets[0], ast.Name)
            and isinstance(node.body[0].value, ast.Constant)
            and isinstance(node.test, ast.Call)
            and isinstance(node.test.func, ast.Name)
            and node.test.func.id == "almost_equal"
        ):
            name = node.body[0].targets[0].id
            self.count += 1
            lam = lambda body: ast.Lambda(
                args=ast.arguments(posonlyargs=[], args=[], kwonlyargs=[], kw_defaults=[], defaults=[]),
                body=body,
            )
            new = ast.Assign(
                targets=[ast.Name(id=name, ctx=ast.Store())],
                value=ast.Call(
                    func=ast.Name(id="__sx_ite__", ctx=ast.Load()),
                    args=[lam(node.test), lam(node.body[0].value), ast.Name(id=name, ctx=ast.Load())],
                    keywords=[],
                ),
            )
            return ast.copy_location(new, node)
        return node


def _sx_ite(cond_thunk, then_thunk, old):
    from .values import SymBool, sym_ite

    c = cond_thunk()
    if isinstance(c, SymBool):
        return sym_ite(c.t, then_thunk(), old)
    return then_thunk() if c else old


def _sx_snap(thunk, a, b):
    ctx = C.CUR
    if ctx is None or not ctx.opts.get("snap_cut"):
        return thunk()
    vals = tuple(a) + tuple(b)
    if not any(isinstance(v, SymReal) for v in vals):
        return thunk()
    import z3
    from .values import term_of

    tol = z3.RealVal("1/1000000000")
    dx = term_of(a[0]) - term_of(b[0])
    dy = term_of(a[1]) - term_of(b[1])
    band = z3.And(
        z3.Or(dx != 0, dy != 0), dx <= tol, -dx <= tol, dy <= tol, -dy <= tol
    )
    ctx._add(z3.Not(band))  # the band 0<|d|<=1e-9 is assumed empty
    ctx.cuts = getattr(ctx, "cuts", 0) + 1
    return False


class Mods:
    """The privately loaded picosvg modules of one load()."""

    def __init__(self, prefix):
        self._prefix = prefix
        self._mods = {}
        self.ast_rewrites = 0
        self.snap_sites = 0
        self.ifconv_sites = 0
        self.stubs = []
        self.sources = {}

    def __getattr__(self, name):
        try:
            return self._mods[name]
        except KeyError:
            raise AttributeError(name)


def load(*, fake_skia=True, lex_placeholders=True, modules=MODULE_ORDER, extra_ast=None, merge_tuple_cmp=True, extra_builtins=None, extra_imports=None):
    n = next(_load_counter)
    prefix = f"sxload{n}"
    mods = Mods(prefix)
    pkg = types.ModuleType(prefix + ".picosvg")
    pkg.__path__ = []
    sys.modules[prefix + ".picosvg"] = pkg
    mods._mods["__pkg__"] = pkg

    if fake_skia:
        from . import fake_pathops

        pathops_mod = fake_pathops
        mods.stubs.append("pathops -> sx.fake_pathops (abstract Skia, DESIGN 1.4)")
    else:
        import pathops as pathops_mod  # real

    real_import = builtins.__import__

    def sx_import(name, globals=None, locals=None, fromlist=(), level=0):
        if level == 0:
            if name == "math":
                return symmath
            if name == "pathops":
                return pathops_mod
            if extra_imports and name in extra_imports:
                return extra_imports[name]
            if name == "picosvg":
                for sub in fromlist or ():
                    if sub not in mods._mods and os.path.exists(
                        os.path.join(SRC, sub + ".py")
                    ):
                        _load_one(sub)
                return pkg
            if name.startswith("picosvg."):
                sub = name.split(".", 1)[1]
                if sub not in mods._mods:
                    _load_one(sub)
                return mods._mods[sub] if fromlist else pkg
        return real_import(name, globals, locals, fromlist, level)

    bdict = dict(vars(builtins))
    bdict.update(
        {
            "float": SxFloat,
            "int": SxInt,
            "min": sym_min,
            "max": sym_max,
            "isinstance": sx_isinstance,
            "set": SxSet,
            "frozenset": SxFrozenSet,
            "__sx_set__": _sx_set,
            "__sx_setop__": _sx_setop,
            "__sx_snap__": _sx_snap,
            "__sx_ite__": _sx_ite,
            "__import__": sx_import,
        }
    )
    if extra_imports:
        mods.stubs.append("imports replaced: " + ", ".join(sorted(extra_imports)))
    if extra_builtins:
        bdict.update(extra_builtins)
        mods.stubs.append("builtins also replaced: " + ", ".join(sorted(extra_builtins)))

    def _load_one(name):
        path = os.path.join(SRC, name + ".py")
        with open(path, "r", encoding="utf-8") as f:
            text = f.read()
        mods.sources[name] = path
        tree = ast.parse(text, filename=path)
        rw = _SetRewriter()
        tree = rw.visit(tree)
        sc = _SnapCut()
        tree = sc.visit(tree)
        mods.snap_sites += sc.count
        ic = _IfConvert()
        tree = ic.visit(tree)
        mods.ifconv_sites += ic.count
        if extra_ast is not None:
            tree = extra_ast(name, tree) or tree
        ast.fix_missing_locations(tree)
        mods.ast_rewrites += rw.count
        code = compile(tree, path, "exec")
        modname = f"{prefix}.picosvg.{name}"
        m = types.ModuleType(modname)
        m.__file__ = path
        m.__dict__["__builtins__"] = bdict
        sys.modules[modname] = m
        mods._mods[name] = m  # before exec: cyclic imports
        exec(code, m.__dict__)
        setattr(pkg, name, m)
        return m

    for name in modules:
        if name not in mods._mods:
            _load_one(name)

    if merge_tuple_cmp:
        _merge_namedtuple_compare(mods)

    if lex_placeholders and "svg_path_iter" in mods._mods:
        import re

        spi = mods.svg_path_iter
        old = spi._FLOAT_RE
        new = re.compile(old.pattern + f"|{PH_OPEN}[0-9]+{PH_OPEN}")
        spi._ARC_ARGUMENT_TYPES = tuple(
            (conv, new if rx is old else rx) for conv, rx in spi._ARC_ARGUMENT_TYPES
        )
        spi._FLOAT_RE = new
        mods.stubs.append(
            "svg_path_iter._FLOAT_RE |= placeholder token (number lexing is C10's subject)"
        )
    if "svg" in mods._mods:
        _stub_attr_ntos(mods)
    if mods.ifconv_sites:
        mods.stubs.append(
            f"if-conversion of {mods.ifconv_sites} `if almost_equal(x,k): x = c` statements into ite terms (no fork, same semantics)"
        )
    mods.stubs.append(
        "builtins float/int/min/max/isinstance/set/frozenset/__import__(math->sx.symmath) replaced; "
        "set displays rewritten to order/equality-aware SxSet"
    )
    return mods


def _merge_namedtuple_compare(mods):
    """State merging for comparisons of numeric NamedTuples.

    tuple.__eq__ short-circuits component by component, which forks once per
    component on symbolic fields although every "not equal" outcome continues
    identically.  The merged versions build one conjunction (one fork).
    Point/Vector.almost_equals (a conjunction of two almost_equal calls) is
    merged the same way; its equivalence with the original source function is
    re-proved on every run by checks/c09.py (case 'lemma_merge').
    """
    import z3
    from .values import SymReal, SymBool, term_of

    def _sym_eq(a, b):
        if type(b) is not type(a) and not isinstance(b, tuple):
            return NotImplemented
        if len(a) != len(b):
            return False
        if not any(isinstance(v, SymReal) for v in tuple.__iter__(a)) and not any(
            isinstance(v, SymReal) for v in tuple.__iter__(b)
        ):
            return tuple.__eq__(a, b)
        conds = []
        for x, y in zip(tuple.__iter__(a), tuple.__iter__(b)):
            if isinstance(x, SymReal) or isinstance(y, SymReal):
                try:
                    conds.append(term_of(x) == term_of(y))
                except TypeError:
                    return False
            elif x != y:
                return False
        return SymBool(z3.And(*conds)) if conds else True

    def _eq(a, b):
        return _sym_eq(a, b)

    def _ne(a, b):
        r = _sym_eq(a, b)
        if r is NotImplemented:
            return r
        if isinstance(r, SymBool):
            return SymBool(z3.Not(r.t))
        return not r

    gt = mods._mods.get("geometric_types")
    st = mods._mods.get("svg_transform")
    classes = []
    if gt is not None:
        classes += [gt.Point, gt.Vector, gt.Rect]
    if st is not None:
        classes += [st.Affine2D]
    for cls in classes:
        cls.__eq__ = _eq
        cls.__ne__ = _ne
        cls.__hash__ = tuple.__hash__
    if gt is not None:
        for cls in (gt.Point, gt.Vector):
            orig = cls.almost_equals
            cls._orig_almost_equals = orig

            def merged(self, other, tolerance=gt.DEFAULT_ALMOST_EQUAL_TOLERANCE, _orig=orig):
                vals = (self.x, self.y, other.x, other.y, tolerance)
                if not any(isinstance(v, SymReal) for v in vals):
                    return _orig(self, other, tolerance)
                tt = term_of(tolerance)
                dx = term_of(self.x) - term_of(other.x)
                dy = term_of(self.y) - term_of(other.y)
                return SymBool(z3.And(dx <= tt, -dx <= tt, dy <= tt, -dy <= tt))

            cls.almost_equals = merged
    # --- optional cut of the default 1e-9 tolerance band (opts['tol_cut']) -------------
    if gt is not None:
        orig_ae = gt.almost_equal
        default_tol = gt.DEFAULT_ALMOST_EQUAL_TOLERANCE

        def almost_equal_cut(c1, c2, tolerance=default_tol):
            ctx = C.CUR
            if (
                ctx is not None
                and ctx.opts.get("tol_cut")
                and tolerance == default_tol
                and (isinstance(c1, SymReal) or isinstance(c2, SymReal))
            ):
                d = term_of(c1) - term_of(c2)
                tt = z3.RealVal("1/1000000000")
                ctx._add(z3.Not(z3.And(d != 0, d <= tt, -d <= tt)))  # band 0<|d|<=1e-9 assumed empty
                return SymBool(d == 0)
            return orig_ae(c1, c2, tolerance)

        for m_ in mods._mods.values():
            if getattr(m_, "almost_equal", None) is orig_ae:
                m_.almost_equal = almost_equal_cut
        mods.tol_cut_installed = True
    mods.stubs.append(
        "==/!= of Point/Vector/Rect/Affine2D and Point/Vector.almost_equals evaluated as one conjunction "
        "(state merging; equivalence with the source function re-proved by C09 lemma_merge)"
    )


def _stub_attr_ntos(mods):
    """svg.to_element compares the *printed* value of a numeric attribute with the
    inherited value as strings.  A symbolic number prints as a placeholder, so the
    comparison would silently be False even when the two numbers are equal.  The
    stub forks on numeric equality with the inherited value and then prints the
    inherited spelling (DESIGN 1.1, `ntos` literal watch)."""
    svg = mods._mods["svg"]
    orig = svg.ntos
    from .values import SxFloat

    def ntos_attr(n):
        if isinstance(n, SymReal):
            fr = sys._getframe(1)
            if fr.f_code.co_name == "to_element":
                loc = fr.f_locals
                attr = loc.get("attr_name")
                inh = loc.get("inherited_attrib") or {}
                if attr in inh:
                    try:
                        lit = SxFloat(inh[attr])
                    except (ValueError, TypeError):
                        lit = None
                    if lit is not None and C.cur().branch(term_of_(n) == term_of_(lit)):
                        return inh[attr]
        return orig(n)

    from .values import term_of as term_of_

    svg.ntos = ntos_attr
    mods.stubs.append(
        "svg.ntos inside to_element: forks on numeric equality with the inherited attribute value (string comparison of printed numbers)"
    )


def unload(mods):
    for k in [k for k in sys.modules if k.startswith(mods._prefix + ".")]:
        del sys.modules[k]


# --- function coverage tracing ------------------------------------------------
class FunctionTracer:
    """Records which functions of the loaded source were executed."""

    def __init__(self):
        self.seen = set()

    def __enter__(self):
        self._old = sys.getprofile()
        src = SRC

        def prof(frame, event, arg):
            if event == "call":
                co = frame.f_code
                if co.co_filename.startswith(src):
                    self.seen.add(
                        os.path.basename(co.co_filename)[:-3] + "." + co.co_qualname
                    )

        sys.setprofile(prof)
        return self

    def __exit__(self, *a):
        sys.setprofile(self._old)


# ---------------------------------------------------------------- module-level state
def snapshot_state(mods, names=None):
    """Remember the contents of every module-level mutable container (dict / list / set /
    defaultdict) of the loaded modules, so that reset_state() can put a module instance back
    into its freshly-imported state in place (cheap alternative to re-loading per path for
    harnesses that study call histories: memo tables, registries, lru_caches)."""
    import copy

    snap = {}
    for mname, m in mods._mods.items():
        if mname == "__pkg__" or (names and mname not in names):
            continue
        for k, v in list(vars(m).items()):
            if k.startswith("__"):
                continue
            if isinstance(v, (dict, list, set)) and type(v).__module__ in ("builtins", "collections"):
                try:
                    snap[(mname, k)] = (v, copy.copy(v))
                except Exception:
                    pass
    mods._state_snapshot = snap
    return snap


def reset_state(mods):
    snap = getattr(mods, "_state_snapshot", None)
    if snap is None:
        return
    for (mname, k), (obj, saved) in snap.items():
        if isinstance(obj, dict):
            obj.clear()
            obj.update(saved)
        elif isinstance(obj, list):
            obj[:] = saved
        elif isinstance(obj, set):
            obj.clear()
            obj.update(saved)
    # containers created after the snapshot by a changed source are found by name again
    for mname, m in mods._mods.items():
        if mname == "__pkg__":
            continue
        for k, v in list(vars(m).items()):
            if hasattr(v, "cache_clear"):
                try:
                    v.cache_clear()
                except Exception:
                    pass
