"""Check driver: shards cases over processes, replays solver witnesses on the
real package, applies the known-findings protocol, writes evidence.

Exit codes: 0 held / 1 VIOLATION (replayed) / 3 inconclusive or harness error.
"""
import argparse
import hashlib
import importlib
import json
import multiprocessing as mp
import os
import sys
import time
import traceback

VERIF = os.path.dirname(os.path.dirname(os.path.abspath(__file__)))
KNOWN = os.path.join(VERIF, "known_findings.json")
EXIT_OK, EXIT_VIOLATION, EXIT_INCONCLUSIVE = 0, 1, 3


def _worker(args):
    modname, case, tier, seed = args
    t0 = time.time()
    trace = os.environ.get("SX_TRACE_CASES")
    if trace:
        with open(trace, "a") as fp:
            fp.write(f"start {os.getpid()} {json.dumps(case)}\n")
    try:
        mod = importlib.import_module(modname)
        out = mod.run_case(case, tier)
        out.setdefault("error", None)
        if trace:
            with open(trace, "a") as fp:
                fp.write(f"end {os.getpid()} {time.time() - t0:.1f}s {json.dumps(case)}\n")
    except BaseException as e:  # noqa
        out = {
            "error": f"{type(e).__name__}: {e}\n{traceback.format_exc(limit=8)}",
            "paths": 0,
            "queries": 0,
            "solver_s": 0.0,
            "failures": [],
            "inconclusive": [],
        }
    out["case"] = case
    out["wall_s"] = time.time() - t0
    return out


def load_known():
    try:
        with open(KNOWN) as f:
            return json.load(f)
    except FileNotFoundError:
        return {"findings": [], "fixed": []}


def run_check(mod, tier, seed, only=None, jobs=None):
    """mod: a checks.cXX module.  Returns exit code."""
    pid = mod.PROPERTY
    t0 = time.time()
    cases = mod.cases(tier, seed)
    if only:
        cases = [c for c in cases if only in json.dumps(c)]
    jobs = jobs or int(os.environ.get("SX_JOBS", "16"))
    results = []
    work = [(mod.__name__, c, tier, seed) for c in cases]
    # longest first when the module can estimate
    if hasattr(mod, "case_cost"):
        work.sort(key=lambda w: -mod.case_cost(w[1]))
    if jobs > 1 and len(work) > 1:
        ctx = mp.get_context("fork")
        with ctx.Pool(min(jobs, len(work)), maxtasksperchild=getattr(mod, "MAX_TASKS_PER_CHILD", 200)) as pool:
            for r in pool.imap_unordered(_worker, work, chunksize=1):
                results.append(r)
    else:
        for w in work:
            results.append(_worker(w))

    # ---- aggregate --------------------------------------------------------
    agg = {
        "cases": len(results),
        "paths": 0,
        "queries": 0,
        "solver_s": 0.0,
        "checks": 0,
        "unknown": 0,
        "validated": 0,
        "nontrivial": 0,
        "vacuity_twins_violated": 0,
        "vacuity_twins": 0,
    }
    functions = set()
    inconclusive = []
    errors = []
    failures = []
    samples = []
    extra = {}
    for r in results:
        if r.get("error"):
            errors.append({"case": r["case"], "error": r["error"]})
            continue
        for k in ("paths", "queries", "checks"):
            agg[k] += r.get(k, 0)
        agg["solver_s"] += r.get("solver_s", 0.0)
        agg["unknown"] += r.get("unknown_check", 0)
        agg["validated"] += r.get("validated", 0)
        agg["nontrivial"] += r.get("nontrivial", 0)
        agg["vacuity_twins"] += r.get("vacuity_twins", 0)
        agg["vacuity_twins_violated"] += r.get("vacuity_twins_violated", 0)
        functions.update(r.get("functions", ()))
        for n in r.get("inconclusive", ()):
            inconclusive.append({"case": r["case"], "note": n})
        for f in r.get("failures", ()):
            failures.append((r["case"], f))
        if r.get("sample") is not None and len(samples) < 12:
            samples.append(r["sample"])
        for k, v in (r.get("extra") or {}).items():
            if isinstance(v, (int, float)):
                extra[k] = extra.get(k, 0) + v
            elif isinstance(v, list):
                extra.setdefault(k, [])
                for x in v:
                    if x not in extra[k] and len(extra[k]) < 60:
                        extra[k].append(x)

    # ---- replay witnesses on the real package --------------------------------
    known = load_known()
    known_here = [k for k in known.get("findings", []) if k["property"] == pid]
    seen_keys = {}
    violations = []
    known_hits = {}
    disagreements = []
    MAX_TRIES = 6  # witnesses of the same finding key replayed until one reproduces
    for case, f in failures:
        key = mod.finding_key(case, f)
        skey = json.dumps(key, sort_keys=True)
        prev = seen_keys.get(skey)
        if prev is not None:
            prev["count"] += 1
            if prev["replay"].get("reproduced") or prev["tries"] >= MAX_TRIES:
                continue
        try:
            rep = mod.replay(case, f)
        except Exception as e:  # noqa
            rep = {"reproduced": False, "detail": f"replay crashed: {type(e).__name__}: {e}"}
        if prev is None:
            entry = {"key": key, "case": case, "failure": f, "replay": rep, "count": 1, "tries": 1}
            seen_keys[skey] = entry
        else:
            prev["tries"] += 1
            if rep.get("reproduced"):
                prev.update({"case": case, "failure": f, "replay": rep})
            entry = prev
    for skey, entry in seen_keys.items():
        rep = entry["replay"]
        key = entry["key"]
        if not rep.get("reproduced"):
            disagreements.append(entry)
            continue
        hit = None
        for k in known_here:
            if _match_known(k, key):
                hit = k
                break
        if hit is not None:
            known_hits.setdefault(hit["id"], (hit, entry))
        else:
            violations.append(entry)

    # a witness that did not reproduce is tolerated only when another witness of the
    # same case and label did
    reproduced = {(json.dumps(e["case"], sort_keys=True), e["failure"]["label"]) for e in seen_keys.values() if e["replay"].get("reproduced")}
    hard_disagreements = [d for d in disagreements if (json.dumps(d["case"], sort_keys=True), d["failure"]["label"]) not in reproduced]

    wall = time.time() - t0
    evdir = os.environ.get("SX_EVIDENCE_DIR", os.path.join(VERIF, "evidence"))
    os.makedirs(evdir, exist_ok=True)
    os.makedirs(os.path.join(VERIF, "replays", pid), exist_ok=True)

    code = EXIT_OK
    lines = []
    for hid, (hit, entry) in sorted(known_hits.items()):
        lines.append(f"KNOWN-FINDING: property={pid} {hit['what']}")
    for v in violations:
        h = hashlib.sha1(json.dumps(v["key"], sort_keys=True).encode()).hexdigest()[:12]
        path = os.path.join(VERIF, "replays", pid, f"{h}.json")
        with open(path, "w") as fp:
            json.dump(
                {"property": pid, "module": mod.__name__, "case": v["case"], "failure": v["failure"], "replay": v["replay"], "key": v["key"]},
                fp,
                indent=1,
                default=str,
            )
        if sum(1 for l in lines if l.startswith("VIOLATION")) < 8:
            lines.append(f"VIOLATION property={pid} replay={path}")
        code = EXIT_VIOLATION
    if code == EXIT_OK and (errors or inconclusive or hard_disagreements or agg["unknown"]):
        code = EXIT_INCONCLUSIVE
    if agg["vacuity_twins"] and agg["vacuity_twins_violated"] == 0 and code == EXIT_OK:
        code = EXIT_INCONCLUSIVE
        inconclusive.append({"case": None, "note": "vacuity twin never violated"})

    info = mod.describe(tier) if hasattr(mod, "describe") else {}
    from . import symmath

    coverage = {
        "explanation": info.get("explanation", ""),
        "evaluations": agg["paths"],
        "distinct_nontrivial": agg["nontrivial"],
        "rule": info.get(
            "rule",
            "one evaluation = one feasible symbolic path (decision prefix) of the real source; "
            "non-trivial = the path executed at least one solver-decided branch or a non-default structural choice",
        ),
        "samples": samples[:12] or [{"note": "no path completed"}],
        "functions_encoded": sorted(functions),
        "bounds": info.get("bounds", {}),
        "outside_claim": info.get("outside", []),
        "stubs": info.get("stubs", []),
        "cases": agg["cases"],
        "paths": agg["paths"],
        "queries": agg["queries"],
        "obligations": agg["checks"],
        "discharged": agg["checks"] - agg["unknown"] - sum(e["count"] for e in seen_keys.values()),
        "solver_s": round(agg["solver_s"], 2),
        "unknown": agg["unknown"],
        "traces_validated_against_impl": agg["validated"],
        "vacuity_twins": agg["vacuity_twins"],
        "vacuity_twins_violated": agg["vacuity_twins_violated"],
        "inconclusive": inconclusive[:40],
        "errors": errors[:10],
        "witnesses_not_reproduced": [
            {"key": d["key"], "detail": d["replay"].get("detail")} for d in disagreements[:10]
        ],
        "known_findings_seen": sorted(known_hits),
        "exhaustive": not (errors or inconclusive),
        "solver": "z3 " + _z3_version(),
    }
    coverage.update(extra)
    ev = {
        "property_id": pid,
        "tier": tier,
        "seed": seed,
        "level": "other",
        "coverage": coverage,
        "assumptions": info.get("assumptions", []),
        "wall_s": round(wall, 2),
        "violations": len(violations),
        "exit_code": code,
    }
    with open(os.path.join(evdir, f"{pid}.json"), "w") as fp:
        json.dump(ev, fp, indent=1, default=str)
    for ln in lines:
        print(ln)
    print(
        f"[{pid}] tier={tier} cases={agg['cases']} paths={agg['paths']} queries={agg['queries']} "
        f"solver_s={agg['solver_s']:.1f} checks={agg['checks']} unknown={agg['unknown']} "
        f"validated={agg['validated']} violations={len(violations)} known={len(known_hits)} "
        f"inconclusive={len(inconclusive)} errors={len(errors)} not_reproduced={len(hard_disagreements)} "
        f"wall={wall:.1f}s exit={code}"
    )
    if os.environ.get("SX_VERBOSE"):
        for r in sorted(results, key=lambda r: -r["wall_s"])[:15]:
            print(f"  {r['wall_s']:.1f}s paths={r.get('paths')} q={r.get('queries')} fail={len(r.get('failures', []))} {json.dumps(r['case'])[:150]}")
        for e in list(seen_keys.values())[:8]:
            print("  witness:", json.dumps({"key": e["key"], "repro": e["replay"].get("reproduced"), "inputs": e["replay"].get("inputs")}, default=str)[:400])
    if errors:
        print("first error:", errors[0]["case"], errors[0]["error"][:2000])
    if inconclusive:
        print("first inconclusive:", str(inconclusive[0])[:700])
    if hard_disagreements:
        d = hard_disagreements[0]
        print("first non-reproduced witness:", json.dumps({"key": d["key"], "failure": d["failure"], "replay": d["replay"]}, default=str)[:700])
    return code


def _z3_version():
    import z3

    return z3.get_version_string()


def _match_known(k, key):
    """a known finding matches when every field it lists equals the key's"""
    m = k.get("match", {})
    if not isinstance(key, dict):
        return False
    for a, b in m.items():
        if key.get(a) != b:
            return False
    return True


def main(argv=None):
    ap = argparse.ArgumentParser()
    ap.add_argument("property")
    ap.add_argument("--tier", default=os.environ.get("VERIF_TIER", "quick"))
    ap.add_argument("--seed", type=int, default=int(os.environ.get("VERIF_SEED", "0")))
    ap.add_argument("--only", default=None)
    ap.add_argument("--jobs", type=int, default=None)
    ap.add_argument("--replay", default=None)
    a = ap.parse_args(argv)
    sys.path.insert(0, VERIF)
    mod = importlib.import_module(f"checks.{a.property.lower()}")
    if a.replay:
        with open(a.replay) as fp:
            rec = json.load(fp)
        rep = mod.replay(rec["case"], rec["failure"])
        print(json.dumps(rep, indent=1, default=str))
        return EXIT_VIOLATION if rep.get("reproduced") else EXIT_OK
    return run_check(mod, a.tier, a.seed, only=a.only, jobs=a.jobs)


if __name__ == "__main__":
    sys.exit(main())
