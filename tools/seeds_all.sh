#!/bin/sh
# usage: tools/seeds_all.sh [seed-dir-names...] -- apply every stored seeded change in a scratch worktree, run the check named in
# meta.json "ran" (last word), print one line per seed: <seed> <exit-summary>
cd /verif
SEEDS="$@"; [ -z "$SEEDS" ] && SEEDS=$(ls seeded)
for s in $SEEDS; do
  ID=$(.venv/bin/python -c "import json;print(json.load(open('seeded/$s/meta.json'))['ran'].split()[-1])")
  case "$ID" in C[0-9][0-9]) ;; *) ID=$(echo $s | cut -d- -f1);; esac
  R=$(tools/seedrun.sh /verif/seeded/$s $ID 2>&1 | grep -E "^\[C" | sed -E 's/.*(violations=[0-9]+).*(inconclusive=[0-9]+).*(not_reproduced=[0-9]+).*(exit=[0-9]+).*/\1 \2 \3 \4/')
  echo "$s $ID ${R:-NO-RESULT}"
done
