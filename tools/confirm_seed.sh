#!/bin/sh
# usage: tools/confirm_seed.sh <dir-with-patch.diff-and-demo.py> -- confirms a seeded change in a scratch worktree
S="$1"
W=$(mktemp -d /tmp/confirm.XXXXXX); rmdir "$W"
git -C /repo worktree add -q --detach "$W" HEAD || exit 9
cd "$W"
PYTHONPATH="$W/src" /venv/bin/python "$S/demo.py" >/tmp/confirm_demo0.log 2>&1; D0=$?
git apply "$S/patch.diff" || { echo "PATCH DOES NOT APPLY"; git -C /repo worktree remove --force "$W"; exit 8; }
PYTHONPATH="$W/src" /venv/bin/python -m pytest -q -p no:cacheprovider --timeout=900 2>&1 | tail -1 > /tmp/confirm_tests.log
PYTHONPATH="$W/src" /venv/bin/python "$S/demo.py" >/tmp/confirm_demo1.log 2>&1; D1=$?
echo "demo_unchanged_exit=$D0 demo_changed_exit=$D1 tests: $(cat /tmp/confirm_tests.log)"
tail -2 /tmp/confirm_demo1.log | cut -c1-300
cd /; git -C /repo worktree remove --force "$W"
