#!/usr/bin/env python3
"""Regenerates MANIFEST.json from tools/manifest_src.py (single source of truth)."""
import json, os, sys
HERE = os.path.dirname(os.path.dirname(os.path.abspath(__file__)))
sys.path.insert(0, os.path.join(HERE, "tools"))
import manifest_src as M

props = [json.loads(l)["id"] for l in open(os.path.join(HERE, "properties.jsonl"))]
checks = []
for pid in props:
    c = M.CHECKS.get(pid)
    if not c:
        continue
    checks.append({
        "property_id": pid,
        "quick_cmd": f"./check {pid} --tier quick",
        "thorough_cmd": f"./check {pid} --tier thorough",
        "evidence_file": f"/verif/evidence/{pid}.json",
        "replay_cmd_template": f"./check {pid} --replay {{path}}",
        "engine": "sx",
        "level_claimed": {"category": "other", "text": c["text"], "design_ref": c.get("design_ref", "DESIGN.md section 2")},
        "level_note": c["note"],
        "technique": c.get("technique", M.TECHNIQUE),
    })
na = [{"property_id": pid, "reason": M.NOT_APPLICABLE[pid]} for pid in props if pid not in M.CHECKS]
missing = [pid for pid in props if pid not in M.CHECKS and pid not in M.NOT_APPLICABLE]
assert not missing, missing
man = {
    "version": 1,
    "setup_cmd": "sh ./setup.sh",
    "hooks": {
        "guard": "PICOSVG_VERIF",
        "enable": "no source hook is needed: instrumentation is applied by sx/loader.py to an in-memory copy of /repo/src/picosvg/*.py read on every run",
        "baseline_off_cmd": "cd /repo && /venv/bin/python -m pytest -ra -q -p no:cacheprovider --timeout=900 --continue-on-collection-errors",
        "source_commits": M.SOURCE_COMMITS,
        "add_only": True,
    },
    "engines": [{
        "name": "sx",
        "path": "/verif/sx",
        "serves_properties": [c["property_id"] for c in checks],
        "kind_free_text": "bounded symbolic execution of picosvg's reloaded source on z3-backed reals (re-execution DFS, one SMT validity query per assertion and path), witnesses replayed on the real package",
    }],
    "checks": checks,
    "not_applicable": na,
    "notes": M.NOTES,
}
json.dump(man, open(os.path.join(HERE, "MANIFEST.json"), "w"), indent=1)
print("checks:", [c["property_id"] for c in checks], "n/a:", [n["property_id"] for n in na])
