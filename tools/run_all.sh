#!/bin/sh
# usage: tools/run_all.sh [quick|thorough] [ids...]   -- runs the registered checks, prints one summary line each
cd "$(dirname "$0")/.."
TIER=${1:-quick}; shift
IDS="$@"
[ -z "$IDS" ] && IDS=$(.venv/bin/python -c "import json;print(' '.join(c['property_id'] for c in json.load(open('MANIFEST.json'))['checks']))")
for id in $IDS; do
  ./check $id --tier $TIER 2>&1 | grep -E "^\[C|VIOLATION|KNOWN" | cut -c1-330
done
