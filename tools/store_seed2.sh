#!/bin/sh
# usage: tools/store_seed2.sh <ID> <A|B> <n> -- confirm /tmp/w4_<ID>/seed<A|B> and copy it to seeded/<ID>-<n>/
ID="$1"; L="$2"; N="$3"
cd /verif
tools/confirm_seed.sh /tmp/w4_$ID/seed$L || exit 1
mkdir -p seeded/$ID-$N
cp /tmp/w4_$ID/seed$L/patch.diff /tmp/w4_$ID/seed$L/demo.py /tmp/w4_$ID/seed$L/notes.md seeded/$ID-$N/
