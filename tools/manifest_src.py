TECHNIQUE = "bounded symbolic execution of the reloaded picosvg source + SMT validity queries (z3), sat models replayed on the real package"
SOURCE_COMMITS = []
NOTES = "See DESIGN.md. Exit codes of ./check: 0 held, 1 VIOLATION (replayed on the real package), 3 inconclusive/harness error (never a verdict)."
PENDING = "check not built yet in this round (planned in DESIGN.md section 2); listed here until its harness lands"
CHECKS = {
    "C11": {
        "text": "Every feasible path of the real svg_transform.py code (parse_svg_transform on 1-3/1-4 operation lists in 6 separator styles, all Affine2D algebra methods, rect_to_rect for every alignment) is explored with all numbers as z3 reals; the SVG-spec oracle is an SMT validity query per path. Bounded in list length only; numbers are universally quantified. Also: number lexing - op(numbers) with the numbers as symbolic character strings, `re` of the loaded module replaced by backtracking regex semantics over symbolic characters, oracle = SVG 1.1 number production.",
        "note": "floats modelled as reals; sin/cos/tan/hypot uninterpreted symbols shared with the oracle; round by contract; number lexing by float() outside (C10).",
        "design_ref": "DESIGN.md 2/C11",
    },
}
CHECKS.update({
    "C09": {
        "text": "Whole walks of the real SVGPath rewrites (absolute, relative, absolute_moveto, explicit_lines, expand_shorthand, arcs_to_cubics, as_cmd_seq, move, subpaths, round_floats, round_multiple, basic shapes' as_path) on every letter sequence M|m + k<=2 (quick; +targeted k=3) / k<=3 (+k=4 sub-alphabet, thorough) over all 20 commands; every numeric argument is a z3 real, every feasible branch combination of the source (incl. the 1e-9 snap) is explored and the result compared with an independent SVG path interpreter by SMT validity queries.",
        "note": "floats as reals; arc_to_cubic replaced by an interface-contract stub (geometry is C12); round() by contract; number lexing/printing is C10; merged tuple comparisons re-proved equivalent each run (lemma_merge).",
        "design_ref": "DESIGN.md 2/C09",
    },
    "C13": {
        "text": "svg_pathops/svg_types boolean-operation glue executed symbolically under an abstract Skia: for 1-3/1-4 operands with symbolic coordinates and every fill-rule assignment the region term handed back must be propositionally equivalent (z3) to the left fold of the set operation over Leaf(operand_i, fillType(rule_i)), leaves identified by provable coordinate equality; engine failures (solver-forked) must propagate. Refutations are replayed with real Skia and an independent winding-number sampler. Every abstract op()/simplify() may also return an empty path (explorer fork, matching emptiness assumption in the region equivalence); a quarter (quick) / all (thorough) of the cases are validated on the real Skia with battery operands.",
        "note": "decides only that picosvg asks Skia the right question and returns its answer; that Skia's op() is the set operation is trusted (C++). Snap band assumed empty (C09).",
        "design_ref": "DESIGN.md 2/C13",
    },
    "C18": {
        "text": "might_paint / remove_empty_subpaths / remove_unpainted_shapes executed symbolically with opacities, stroke width, coordinates and the abstract Skia area as z3 reals, over all combinations of fill/stroke/display given as attribute or style and several command skeletons; assertion per path: reported-unpainted => paints nothing under the SVG cascade (SMT validity).",
        "note": "area>0 <=> non-empty interior is Skia's (trusted); floats as reals; snap band assumed empty.",
        "design_ref": "DESIGN.md 2/C18",
    },
    "C19": {
        "text": "Rect.intersection/union/empty, shape and document bounding boxes, and SVG.clip_to_viewbox on picosvg-shaped documents (1-2/1-3 paths, optional translucent group) with symbolic viewBox and geometry under the abstract Skia: dropped iff bounds and viewBox are interior-disjoint, untouched iff bounds inside, otherwise region term == shape intersect (bounds intersect viewBox); order, paint, group pruning checked; all by SMT validity per path.",
        "note": "tightness of Skia bounds on curves and the set semantics of its intersection are trusted; floats as reals.",
        "design_ref": "DESIGN.md 2/C19",
    },
})
CHECKS["C20"] = {
    "text": "Modular decision of affine_between's soundness: (1) the verifier _try_affine (with _affine_friendly, _apply_affine, _affine_callback, almost_equals) is executed symbolically for an ARBITRARY affine R and arbitrary coordinates of both shapes over every skeleton M+k letters (k<=2, 18 letters; k=3 sub-alphabet thorough): acceptance implies that R, applied independently to s1 as read by an independent path interpreter, reproduces s2 within tol, command for command (SMT validity, linear abstraction over monomials + NRA portfolio); (2) _round returns its argument or a matrix the verifier accepted; (3) every return of affine_between is dominated by its verifier (decided on the AST of the loaded source); (4) almost_equals decides exactly per-argument closeness; (5) whole-function runs for the completeness clauses: identical shapes give the identity, exactly translated copies are always matched.",
    "note": "whole-function symbolic exploration of the heuristic search is out of reach (NRA with atan2/sin/cos at every branch: probe in DESIGN); soundness does not depend on the heuristics, only on the verifier, which is what is decided. Arc radii under R outside; floats as reals; snap band assumed empty; tol>=1e-6 for the completeness clauses.",
    "design_ref": "DESIGN.md 2/C20",
}
CHECKS["C12"] = {
    "text": "arc_to_cubic.py in five symbolic parts: degenerate cases (all arguments real); the _arc_to_cubic loop for an arbitrary centre parametrisation (segment count via ceil axioms + integer enumeration, every control/end point equal to the standard circular-arc cubic construction mapped onto the ellipse, last end point exactly the arc end); the 0.03% radial accuracy of the control points the real loop body yields, as a polynomial query in u=tan(D/4), s in [0,1] decided by nlsat; radii correction; centre computation for base arcs scaled by a symbolic k>0 (all magnitudes) and the sweep-sign / full-turn clauses for general symbolic arcs. Radii of either sign and rotated ellipse frames in the radii/flags parts (direction = sign(theta_arc)*sign(rx*ry)).",
    "note": "sin/cos/tan/atan2/sqrt uninterpreted (values of libm outside); float constants snapped to the rationals they round (perturbation < 1e-14, absorbed by a 1e-9 margin); |theta_arc| >= pi <=> large-arc not encoded; centre checked on 3-4 base arcs x symbolic scale rather than for arbitrary arcs (general query is out of solver reach: probe in DESIGN).",
    "design_ref": "DESIGN.md 2/C12",
}
_PIPE_NOTE = "abstract Skia contract trusted (set semantics of op, stroker geometry, area, bounds); round is the identity in this harness; 1e-9 snap band assumed empty (C09); arcs and zero-area shapes outside; structure enumerated by the template family, numbers universally quantified."
CHECKS.update({
    "C02": {
        "text": "The whole topicosvg pipeline executed symbolically on ~35 template documents (nested groups, transform lists, use with x/y/transform, nested svg with every preserveAspectRatio class and overflow, display:none) whose numbers are z3 reals, under the abstract Skia; an independent SVG rendering model gives the paint tree of source and output, leaves are identified by provable coordinate equality and composited colour/alpha at a symbolic sample point (free coverage atoms) must agree - one SMT validity query per path.",
        "note": _PIPE_NOTE,
        "design_ref": "DESIGN.md 2/C02",
    },
    "C03": {
        "text": "Same machinery on clipPath templates (1-3 children, clip-rule per child / on clipPath, transforms on clipPath and children, clip of a clip, clips on shapes/groups/use, ancestor chains, use inside clipPath): every output region term must be propositionally equivalent to shape AND (OR of clip children) per clip, in the referencing element's coordinate system; output carries no clip-path.",
        "note": _PIPE_NOTE,
        "design_ref": "DESIGN.md 2/C03",
    },
    "C04": {
        "text": "Stroke bookkeeping on ~30 templates (cap x join, dash arrays, offsets, miterlimit, inheritance, style, transforms, opacities, clip, use, viewBox-derived tolerance): the stroke piece is Xf(Simplify(C2Q(Stroke(shape in own coordinates, parameters == cascade values), tolerance)), CTM), painted above the fill with the right paint and opacity; no stroke attribute survives. Replays intercept the real Skia calls (recording subclass of pathops.Path) and compare the parameters asked.",
        "note": _PIPE_NOTE + " NOT APPLICABLE PART: the outline geometry (w/2 neighbourhood, caps, joins, miter, dashes, 0.25-unit accuracy) is computed entirely inside Skia's stroker.",
        "design_ref": "DESIGN.md 2/C04",
    },
    "C05": {
        "text": "Paint/opacity cascade on ~30 templates (fill, fill-opacity, opacity, display, fill-rule by attribute / style / both, on root, nested groups, use, shapes): composite(source) == composite(output) as a QF_NRA validity query with opacities in [0,1], one colour symbol per paint and a free coverage Boolean per leaf (all overlap patterns).",
        "note": _PIPE_NOTE + " 'inherit'/currentColor and opacities outside [0,1] outside.",
        "design_ref": "DESIGN.md 2/C05",
    },
})
CHECKS["C06"] = {
    "text": "topicosvg on ~27 gradient templates (linear/radial, both gradientUnits, numbers/percentages incl. non-square viewBox, gradientTransform, spreadMethod, href chains contributing attributes and/or stops, focal parameters) applied to a rectangle with symbolic position/size under symbolic ancestor transforms. Oracle: for all points and parameters the source's 'point has parameter t' relation (after units, bbox, gradientTransform, CTM per the SVG text) implies the output gradient's - a polynomial SMT validity query per path (nlsat); output gradients self-contained (no href, plain numbers, own stops, resolving id).",
    "note": _PIPE_NOTE + " 1e-9 almost_equal band of decompose_translation assumed empty; fully symbolic 2x2 parts on both gradient and shape only in the thorough tier (10-20 min per template).",
    "design_ref": "DESIGN.md 2/C06",
}
CHECKS.update({
    "C01": {
        "text": "Whole conversion (library call and the CLI's _run in-process) on the template families plus templates with unsupported/ignorable content, for ndigits 0/3(/6) x allow_text x drop_unsupported, with round() following its contract and areas/opacities symbolic; an independent README-grammar checker reads every output: structural clauses concrete per path, numeric clauses (group opacity strictly in (0,1), every path number rounded to ndigits by term shape) as SMT validity queries.",
        "note": _PIPE_NOTE.replace("round is the identity in this harness; ", "") + " absl flag parsing outside.",
        "design_ref": "DESIGN.md 2/C01",
    },
    "C07": {
        "text": "Two/three conversions inside one symbolic path (out2 = convert(out1)) with a shared symbol table: abstract Skia answers are functions of the region term, round obeys |R(x)-x|<=half ulp and R(R(x))=R(x); same XML structure and every pair of numbers provably equal; checkpicosvg(out1) == (). Concrete replays compare bytes.",
        "note": _PIPE_NOTE.replace("round is the identity in this harness; ", "") + " Skia simplify idempotence is modelled, not decided.",
        "design_ref": "DESIGN.md 2/C07",
    },
    "C08": {
        "text": "Conversion of the template families plus id-sharing templates (gradient shared by transformed/untransformed/possibly invisible shapes, id'd shape stroked, id'd group instanced twice, ids colliding with generated ones); which shapes survive and which gradients are cloned depends on numeric forks the solver quantifies over; oracle per output: ids unique, every url(#)/href resolves to a gradient in defs, every gradient referenced.",
        "note": _PIPE_NOTE,
        "design_ref": "DESIGN.md 2/C08",
    },
})
CHECKS.update({
    "C10": {
        "text": "parse_svg_path on buffers whose characters are z3 Int code points: every buffer of length <= 3 (quick) / 4 (thorough) over a 40-symbol alphabet, plus token templates (concrete command letters and separators, symbolic number strings) and printing round-trips; the module's own regexes are re-implemented with Python's backtracking semantics over symbolic characters from their .pattern; oracle = recursive-descent recogniser of the SVG 1.1 BNF on the same buffer; per path an SMT validity query equates the parsed arguments. Also: the real ntos on floats known by their repr (concrete repr skeleton, symbolic digits; str/repr/int of the loaded module replaced) and two-parse call histories in one module instance.",
        "note": "float()/int() of a token modelled by positional arithmetic; buffers longer than the bounds and characters outside the alphabet are outside; SVG 1.1 BNF is the reference.",
        "design_ref": "DESIGN.md 2/C10",
    },
    "C14": {
        "text": "Two conversions in one symbolic path, D and N(D), N inserting a noise item (comment, PI, title/desc/metadata, foreign element/attribute, id-less symbol, attribute-less g wrapper, whitespace, XML declaration) at tree positions of 14 base templates; outputs equal after canonical relabelling of gradient ids / sorting of defs, numbers provably equal.",
        "note": _PIPE_NOTE,
        "design_ref": "DESIGN.md 2/C14",
    },
    "C15": {
        "text": "Every public SVG operation (27, in place and copying) applied from each cache state class (fresh; cache populated by a query; cache dirty after each of 9 in-place shape edits) on documents with symbolic numbers: result equals (canonical XML, numbers provably equal) the result after serialise+reparse of a twin object with the same history; copies leave the receiver's serialisation unchanged; in-place returns the receiver. Documents basic/pico/styled(+nested), 29 operations incl. inheritable attributes set on groups and the root viewBox replaced, read-then-edit histories.",
        "note": _PIPE_NOTE.replace("round is the identity in this harness; ", "") + " The quantifier over histories is covered by the state-class argument (one step from every class), argued not proved; the solver contributes universality over the numbers and numeric forks.",
        "design_ref": "DESIGN.md 2/C15",
    },
    "C16": {
        "text": "Set iteration order as an explorer-chosen input (modules re-loaded inside the explored function with order-aware sets, one iteration event permuted at a time), baseline and permuted conversion inside one symbolic path on templates with symbolic numbers: same structure and provably equal numbers (SMT validity); plus convert(B) after convert(A) in one module instance vs a fresh one for all ordered pairs of 6 documents. Refutations replayed across PYTHONHASHSEED values / processes on the real package. Also symbolic histories (B = A with one number replaced by an independent symbol, B-after-A vs B-fresh), C-level set algebra routed through the order-aware set, attribute order compared, an allow_text case.",
        "note": "orders are enumerated by the explorer (the SMT part is the equality of the numbers across orders); interactions between two permuted sets not explored; nondeterminism inside lxml/Skia and OS effects outside.",
        "design_ref": "DESIGN.md 2/C16",
    },
})
NOT_APPLICABLE = {
    "C17": "termination/time-bound over cyclic reference graphs and libxml2 entity loading: no numeric or byte-level input to make symbolic, non-termination is not an assertion a bounded symbolic path can refute (budget exhausted = inconclusive); enumerating reference graphs under a watchdog would be a different technique family (DESIGN.md section 3)",
}
for _p in []:
    NOT_APPLICABLE.setdefault(_p, PENDING)
