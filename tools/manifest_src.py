TECHNIQUE = "bounded symbolic execution of the reloaded picosvg source + SMT validity queries (z3), sat models replayed on the real package"
SOURCE_COMMITS = []
NOTES = "See DESIGN.md. Exit codes of ./check: 0 held, 1 VIOLATION (replayed on the real package), 3 inconclusive/harness error (never a verdict)."
PENDING = "check not built yet in this round (planned in DESIGN.md section 2); listed here until its harness lands"
CHECKS = {
    "C11": {
        "text": "Every feasible path of the real svg_transform.py code (parse_svg_transform on 1-3/1-4 operation lists in 6 separator styles, all Affine2D algebra methods, rect_to_rect for every alignment) is explored with all numbers as z3 reals; the SVG-spec oracle is an SMT validity query per path. Bounded in list length only; numbers are universally quantified.",
        "note": "floats modelled as reals; sin/cos/tan/hypot uninterpreted symbols shared with the oracle; round by contract; number lexing by float() outside (C10).",
        "design_ref": "DESIGN.md 2/C11",
    },
}
NOT_APPLICABLE = {
    "C17": "termination/time-bound over cyclic reference graphs and libxml2 entity loading: no numeric or byte-level input to make symbolic, non-termination is not an assertion a bounded symbolic path can refute (budget exhausted = inconclusive); enumerating reference graphs under a watchdog would be a different technique family (DESIGN.md section 3)",
}
for _p in ["C01","C02","C03","C04","C05","C06","C07","C08","C09","C10","C12","C13","C14","C15","C16","C18","C19","C20"]:
    NOT_APPLICABLE.setdefault(_p, PENDING)
