#!/bin/sh
# usage: tools/store_seed.sh <ID> <n> -- confirm /tmp/wt_<ID>/seed and copy it to seeded/<ID>-<n>/ (meta.json written by hand afterwards)
ID="$1"; N="${2:-1}"
cd /verif
tools/confirm_seed.sh /tmp/wt_$ID/seed || exit 1
mkdir -p seeded/$ID-$N
cp /tmp/wt_$ID/seed/patch.diff /tmp/wt_$ID/seed/demo.py /tmp/wt_$ID/seed/notes.md seeded/$ID-$N/
