"""prints the markdown table of DESIGN.md section 7 from seeded/*/meta.json"""
import glob
import json
import os

rows = []
for d in sorted(glob.glob(os.path.join(os.path.dirname(__file__), "..", "seeded", "*"))):
    m = json.load(open(os.path.join(d, "meta.json")))
    det = m["detected_by"]
    first = "first run" in det and "after strengthening" not in det
    rows.append((os.path.basename(d), m["summary"], m["needs"], "caught, first run" if first else "after strengthening", det))
print("| seed | change | needs | outcome | how |")
print("|---|---|---|---|---|")
for r in rows:
    print("| " + " | ".join(x.replace("|", "/").replace("\n", " ") for x in r) + " |")
print()
print(f"{len(rows)} seeded changes; {sum(1 for r in rows if r[3].startswith('caught'))} caught by the check as it stood, the others after the strengthening described.")
