"""usage: prof_case.py <check-module> '<case-json>' [tier]  -- run one case, print slow queries"""
import json
import sys
import time

sys.path.insert(0, "/verif")
from sx import ctx as C  # noqa: E402

orig = C.Ctx._check


def timed(self, *a):
    t = time.time()
    r = orig(self, *a)
    dt = time.time() - t
    if dt > 1.0:
        print("slow %.1fs %s" % (dt, r), flush=True)
    return r


C.Ctx._check = timed
import importlib  # noqa: E402

mod = importlib.import_module("checks." + sys.argv[1])
case = json.loads(sys.argv[2])
tier = sys.argv[3] if len(sys.argv) > 3 else "quick"
t = time.time()
r = mod.run_case(case, tier)
print(
    f"{case}: {time.time()-t:.1f}s paths={r['paths']} q={r['queries']} solver={r['solver_s']:.1f} "
    f"fails={[f['label'] for f in r['failures'][:4]]} inc={r['inconclusive'][:2]} tags={r['extra']['path_tags']} validated={r['validated']}"
)
