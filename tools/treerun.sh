#!/bin/sh
# usage: tools/treerun.sh <tree-with-src/picosvg> <check-id> [args]  -- run a check against another source tree
T="$1"; ID="$2"; shift 2
cd /verif
E=$(mktemp -d /tmp/sxev.XXXXXX)
SX_EVIDENCE_DIR="$E" SX_REPO="$T" PYTHONPATH="$T/src" timeout ${MUT_TIMEOUT:-1500} ./check "$ID" "$@" 2>&1 | grep -E "VIOLATION|KNOWN|^.C[0-9][0-9]. tier" | cut -c1-330
rm -rf "$E"
