#!/bin/sh
# usage: tools/mutrun.sh '<sed-expr>' <file-under-src/picosvg> <check-id> [extra args]
# Runs a check against a scratch copy of /repo with one sed mutation applied (never touches /repo).
set -e
EXPR="$1"; FILE="$2"; ID="$3"; shift 3
D=$(mktemp -d /tmp/sxmut.XXXXXX)
mkdir -p "$D/src" && cp -r /repo/src/picosvg "$D/src/picosvg" && cp -r /repo/tests "$D/tests"
sed -i "$EXPR" "$D/src/picosvg/$FILE"
if diff -q /repo/src/picosvg/$FILE "$D/src/picosvg/$FILE" >/dev/null; then echo "MUTATION DID NOT APPLY"; rm -rf "$D"; exit 2; fi
cd /verif
set +e
SX_EVIDENCE_DIR="$D/ev" SX_REPO="$D" PYTHONPATH="$D/src" timeout ${MUT_TIMEOUT:-900} ./check "$ID" "$@" 2>&1 | grep -E "VIOLATION|KNOWN|^.C[0-9][0-9]. tier" | cut -c1-400
rm -rf "$D"
