#!/bin/sh
# usage: tools/seedrun.sh <dir-with-patch.diff> <check-id> [args] -- apply the patch in a scratch worktree, run the check against it, remove it
S="$1"; ID="$2"; shift 2
W=$(mktemp -d /tmp/seedrun.XXXXXX); rmdir "$W"
git -C /repo worktree add -q --detach "$W" HEAD || exit 9
( cd "$W" && git apply "$S/patch.diff" ) || { echo "PATCH DOES NOT APPLY"; git -C /repo worktree remove --force "$W"; exit 8; }
/verif/tools/treerun.sh "$W" "$ID" "$@"
git -C /repo worktree remove --force "$W"; git -C /repo worktree prune
