#!/bin/sh
# usage: tools/seedrun_v.sh <dir-with-patch.diff> <check-id> [args] -- like seedrun.sh but verbose (witnesses, first errors)
S="$1"; ID="$2"; shift 2
W=$(mktemp -d /tmp/seedrun.XXXXXX); rmdir "$W"
git -C /repo worktree add -q --detach "$W" HEAD || exit 9
( cd "$W" && git apply "$S/patch.diff" ) || { echo "PATCH DOES NOT APPLY"; git -C /repo worktree remove --force "$W"; exit 8; }
E=$(mktemp -d /tmp/sxev.XXXXXX)
cd /verif; SX_VERBOSE=1 SX_EVIDENCE_DIR="$E" SX_REPO="$W" PYTHONPATH="$W/src" ./check "$ID" "$@" 2>&1 | tail -${TAIL:-14} | cut -c1-${CUT:-1200}
rm -rf "$E"
git -C /repo worktree remove --force "$W"; git -C /repo worktree prune
