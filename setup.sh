#!/bin/sh
# Builds /verif/.venv: an overlay on /venv (which has picosvg's own deps) plus z3-solver
# from the offline wheelhouse.  No network.
set -e
HERE="$(cd "$(dirname "$0")" && pwd)"
if [ -x "$HERE/.venv/bin/python" ] && "$HERE/.venv/bin/python" -c "import z3, lxml, pathops" 2>/dev/null; then
  exit 0
fi
rm -rf "$HERE/.venv"
/venv/bin/python -m venv "$HERE/.venv"
SP="$("$HERE/.venv/bin/python" -c 'import sysconfig; print(sysconfig.get_paths()["purelib"])')"
echo "import site; site.addsitedir('/venv/lib/python3.12/site-packages')" > "$SP/_overlay.pth"
PIP_NO_INDEX=1 "$HERE/.venv/bin/pip" install --no-index --find-links /opt/veriftools/wheels z3-solver
"$HERE/.venv/bin/python" -c "import z3, lxml, pathops, picosvg; print('ok', z3.get_version_string())"
